#!/bin/bash
# seedtest.sh <seed-dir-name> [PID...] : apply a seeded change to /repo, run the quick checks of the given properties
# (default: the property the seed belongs to), undo the change.  Prints one line per check.
S=$1; shift; D=/verif/seeded/$S
P=${@:-${S%%_*}}
cd /repo || exit 2
if ! git diff --quiet; then echo "/repo has uncommitted changes"; exit 2; fi
PATCH=$D/patch.diff; [ -f $D/patch_current_tree.diff ] && PATCH=$D/patch_current_tree.diff
git apply $PATCH 2>/dev/null || git apply -3 $PATCH 2>/dev/null || patch -p1 -s -F3 < $PATCH || { echo "$S: patch does not apply"; git checkout -- .; exit 2; }
for pid in $P; do
  out=$(cd /verif && python3 run.py check $pid --no-evidence 2>&1); rc=$?
  nv=$(echo "$out" | grep -c "^VIOLATION")
  echo "$S $pid rc=$rc violations=$nv $(echo "$out" | grep -E '^(VIOLATION|UNDECIDED)' | head -3 | cut -c1-160 | tr '\n' ';')"
done
git checkout -- . 
