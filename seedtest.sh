#!/bin/bash
# seedtest.sh <seed-dir-name> [PID...] : apply a seeded change to a scratch copy of /repo's working tree, run the quick
# checks of the given properties (default: the property the seed belongs to) against the copy, remove the copy.
S=$1; shift; D=/verif/seeded/$S
P=${@:-${S%%_*}}
T=$(mktemp -d /tmp/sswseed.XXXXXX)
cp -r /repo/src /repo/include $T/ && ln -s /repo/model $T/model && ln -s /repo/tests $T/tests && mkdir -p $T/_build && cp /repo/_build/config.h $T/_build/ 2>/dev/null
PATCH=$D/patch.diff; [ -f $D/patch_current_tree.diff ] && PATCH=$D/patch_current_tree.diff
( cd $T && (git apply $PATCH 2>/dev/null || git apply -C1 $PATCH 2>/dev/null || patch -p1 -s -F3 --no-backup-if-mismatch < $PATCH) ) || { echo "$S: patch does not apply"; rm -rf $T; exit 2; }
for pid in $P; do
  out=$(cd /verif && python3 run.py check $pid --no-evidence --repo $T 2>&1); rc=$?
  nv=$(echo "$out" | grep -c "^VIOLATION")
  echo "$S $pid rc=$rc violations=$nv $(echo "$out" | grep -E '^(VIOLATION|UNDECIDED)' | head -3 | cut -c1-140 | tr '\n' ';')"
done
rm -rf $T
