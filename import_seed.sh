#!/bin/bash
# import_seed.sh <PID> <X>: copy a confirmed round-2 seed from /tmp/wt/<PID>/seed_out/<X> into seeded/<PID>_<X> and run the check
P=$1; X=$2; S=/tmp/wt/$P/seed_out/$X; D=/verif/seeded/${P}_$X
[ -f $S/patch.diff ] || { echo "$P $X: missing"; exit 2; }
mkdir -p $D; cp $S/patch.diff $S/demo.c $S/README.md $D/ 2>/dev/null; cp $S/*.h $D/ 2>/dev/null
conf=$(/tmp/wt/confirm.sh $P $X 2>&1 | tail -2 | tr '\n' ' ')
python3 - "$P" "$X" "$conf" <<'PY'
import json,sys
p,x,conf=sys.argv[1:4]
json.dump({"property":p,"seed":x,"breaks":p,"round":(4 if x in "GH" else 3 if x in "EF" else 2),"source":"independent sub-agent given only the property text and a scratch worktree (later round, after the native stand-ins were built)",
 "confirmed_by":conf,"detected_by":"(filled in after running the checks)"}, open("/verif/seeded/%s_%s/meta.json"%(p,x),"w"), indent=1)
PY
echo "$conf"
cd /verif && ./seedtest.sh ${P}_$X
