/* C14 (bounded): decoder_result_json without alignment on results of <= NSEG segments.
 * snprintf is an executable stub: its return value is a deterministic function of its arguments only (any such
 * function is a model of the real one for the two-pass length agreement), it writes at most size-1 characters + NUL.
 * The search module is a stub v-table whose iterators yield harness-chosen segments. */
#include "ssw_ghost.h"
#include <stdarg.h>
#include <stdio.h>
static int ssw_snprintf(char *buf, size_t size, const char *fmt, ...);
#define snprintf ssw_snprintf
#define logmath_exp ssw_logmath_exp
#define config_int ssw_config_int
#define ptmr_start ssw_ptmr_start
#define ptmr_stop ssw_ptmr_stop
#include "decoder.c"
#undef snprintf
#undef ptmr_start
#undef ptmr_stop
void ssw_ptmr_start(ptmr_t *t) { (void)t; }
void ssw_ptmr_stop(ptmr_t *t) { (void)t; }
#undef logmath_exp
#undef config_int
#include "ssw_stubs.h"
#ifndef NSEG
#define NSEG 2
#endif

/* recorded arguments of the formatting calls made for segment 0 */
static double g_b[2 * NSEG + 4], g_d[2 * NSEG + 4];
static int g_calls;
static unsigned dlen(double x) { unsigned long long u; memcpy(&u, &x, 8); return 5 + (unsigned)((u >> 7) % 4); }
static int ssw_snprintf(char *buf, size_t size, const char *fmt, ...)
{
    va_list ap; va_start(ap, fmt);
    double b = va_arg(ap, double), d = va_arg(ap, double), p = va_arg(ap, double);
    const char *t = va_arg(ap, const char *);
    va_end(ap);
    (void)fmt;
    if (g_calls < 2 * NSEG + 4) { g_b[g_calls] = b; g_d[g_calls] = d; }
    g_calls++;
    size_t n = 22 + dlen(b) + dlen(d) + dlen(p) + strlen(t);
    if (buf != NULL && size > 0) {
        size_t w = n < size - 1 ? n : size - 1;
        /* content is irrelevant to the length/bounds argument: first and last written character only (no loop) */
        if (w > 0) { buf[0] = 'x'; buf[w - 1] = 'x'; }
        buf[w] = '\0';
    }
    return (int)n;
}
double ssw_logmath_exp(logmath_t *l, int p) { (void)l; return p < 0 ? 0.5 : 1.0; }
static int g_frate;
long ssw_config_int(config_t *c, const char *name) { (void)c; (void)name; return g_frate; }

/* stub search module */
static int g_nseg, g_sf[NSEG], g_ef[NSEG];
static char g_words[NSEG][3];
static ps_segfuncs_t stub_segfuncs;
typedef struct { seg_iter_t base; int cur; } stub_seg_t;
static void stub_fill(stub_seg_t *s) { s->base.word = g_words[s->cur]; s->base.sf = g_sf[s->cur]; s->base.ef = g_ef[s->cur]; s->base.prob = -3; s->base.ascr = -2; s->base.lscr = -1; }
static seg_iter_t *stub_seg_next(seg_iter_t *seg) { stub_seg_t *s = (stub_seg_t *)seg; if (++s->cur >= g_nseg) { free(s); return NULL; } stub_fill(s); return seg; }
static void stub_seg_free(seg_iter_t *seg) { free(seg); }
static seg_iter_t *stub_seg_iter(search_module_t *search)
{ (void)search; if (g_nseg == 0) return NULL; stub_seg_t *s = calloc(1, sizeof *s); s->base.vt = &stub_segfuncs; s->base.search = search; s->cur = 0; stub_fill(s); return &s->base; }
static const char *stub_hyp(search_module_t *search, int32 *score) { (void)search; if (score) *score = -5; return g_nseg ? "h" : NULL; }
static int32 stub_prob(search_module_t *search) { (void)search; return -4; }
static searchfuncs_t stub_funcs;

void r_result_json(void)
{
    IN(int, in_nseg); IN_ARR(int, in_sf, NSEG); IN_ARR(int, in_len, NSEG); IN_ARR(int, in_wl, NSEG); IN_ARR(char, in_c, 2 * NSEG);
    IN(int, in_frate80); IN(int, in_nfr);
    static decoder_t d; static acmod_t am; static search_module_t sm;
    SSW_ASSUME(0 <= in_nseg && in_nseg <= NSEG && (in_frate80 == 0 || in_frate80 == 1) && 0 <= in_nfr && in_nfr <= 3000);
#ifdef SSW_CBMC
    /* symbolic double divisions do not finish: frames and frame rate are concrete here (times are covered by the native
     * enumeration native/json_times.c); segment count and spellings stay symbolic */
    SSW_ASSUME(in_frate80 == 0 && in_nfr == 57);
#endif
    g_frate = in_frate80 ? 80 : 100;
    g_nseg = in_nseg; g_calls = 0;
    int prev = -1;
    for (int i = 0; i < NSEG; i++) {
        SSW_ASSUME(0 <= in_len[i] && in_len[i] < 1000 && 0 <= in_wl[i] && in_wl[i] <= 2);
#ifdef SSW_CBMC
        SSW_ASSUME(in_len[i] == 7 + i);
#endif
        g_sf[i] = prev + 1; g_ef[i] = g_sf[i] + in_len[i]; prev = g_ef[i];
        (void)in_sf;
        for (int k = 0; k < 2; k++) { SSW_ASSUME(in_c[2 * i + k] != 0); g_words[i][k] = k < in_wl[i] ? in_c[2 * i + k] : 0; }
        g_words[i][2] = 0;
    }
    stub_segfuncs.seg_next = stub_seg_next; stub_segfuncs.seg_free = stub_seg_free;
    stub_funcs.seg_iter = stub_seg_iter; stub_funcs.hyp = stub_hyp; stub_funcs.prob = stub_prob;
    sm.vt = &stub_funcs;
    d.acmod = &am; am.output_frame = in_nfr; d.search = &sm; d.json_result = NULL; d.align = NULL;
    const char *js = decoder_result_json(&d, 1.5, 0);
    SSW_ASSERT(js != NULL && js == d.json_result, "a result line is returned");
    size_t n = 0;
#ifdef SSW_CBMC
    n = __CPROVER_OBJECT_SIZE(js) - 1;   /* the block is only partly written by the stub: take its end */
#else
    n = strlen(js);
#endif
    /* exactly as long as the buffer allocated for it: the terminating NUL is the last byte of the block */
    SSW_ASSERT(n >= 3 && js[n - 1] == '\n' && js[n - 2] == '}' && js[n - 3] == ']', "the line ends with ]} and a newline");
#ifdef SSW_CBMC
    SSW_ASSERT(__CPROVER_OBJECT_SIZE(js) == n + 1, "the line is exactly as long as the buffer allocated for it");
#endif
    /* both passes made the same formatting calls, with times = offset + frame / frame rate */
    SSW_ASSERT(g_calls == 2 * (1 + in_nseg), "sizing and writing passes format the same items");
    if (in_nseg > 0) {
        SSW_ASSERT(g_b[1] == 1.5 + (double)g_sf[0] / g_frate && g_d[1] == (double)(g_ef[0] + 1 - g_sf[0]) / g_frate, "segment start/duration are frame index / frame rate plus the offset");
        SSW_ASSERT(g_b[1] == g_b[2 + in_nseg] && g_d[1] == g_d[2 + in_nseg], "both passes report the same times");
    }
    SSW_ASSERT(g_d[0] == (double)(in_nfr + 1) / g_frate, "utterance duration is frames searched / frame rate");
    free(d.json_result);
    VERIF_CANARY();
}
