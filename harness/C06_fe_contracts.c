/* C06: contract harnesses for the sample bookkeeping helpers of src/fe_interface.c */
#include "ssw_ghost.h"
#include "fe_interface.c"
#include "fe.contracts.h"
#include "mem.contracts.h"
#include "ssw_stubs.h"
#ifdef SSW_CBMC
void h_output_frame_count(void) { fe_t *f; size_t n; output_frame_count(f, n); VERIF_CANARY(); }
void h_overflow_append(void) { fe_t *f; void *s; size_t *n; fe_encoding_t e; overflow_append(f, s, n, e); VERIF_CANARY(); }
#endif
