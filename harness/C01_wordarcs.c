/* C01 / C02 / C03 producer side, WORD arcs: the lextree transitions and word exits of src/fsg_search.c carry the
 * history-source invariant HIST_SRC (contracts/fsg_wordarc.ghost.h) from a word entry to the word's exit, where it
 * becomes the path-connectivity precondition of fsg_history_entry_add; the score / predecessor / frame handed to the
 * history table are exactly the exit score, exit back-pointer and current frame (no weight added twice or dropped). */
#define SSW_WORDARC
#include "ssw_ghost.h"
#include "fsg_wordarc.ghost.h"
#include "fsg_search.c"
#include "ssw_stubs.h"
#ifdef SSW_CBMC
/* proved on the real body in group hmm_enter (harness/C02_hmm.c) */
void hmm_enter(hmm_t *h, int32 score, int32 histid, int frame)
__CPROVER_requires(__CPROVER_w_ok(h, sizeof(*h)))
__CPROVER_assigns(h->score[0], h->history[0], h->frame)
__CPROVER_ensures(h->score[0] == score && h->history[0] == histid && h->frame == frame)
;

#define FSGS_FRESH(fsgs) (__CPROVER_is_fresh(fsgs, sizeof(*fsgs)) && fsgs->history == verif_h)
#define EXIT_IS_ALLRC(fsgs, pnode) \
    ((fsgs->fsg->silwords != NULL && (fsgs->fsg->silwords[0] & (1UL << verif_fl->wid)) != 0) \
     || ((search_module_t *)fsgs)->dict->word[verif_dictwid].pronlen == 1)

/* ---- word exit: exactly one history entry, continuing the path of its predecessor ---- */
static void fsg_search_pnode_exit(fsg_search_t *fsgs, fsg_pnode_t *pnode)
__CPROVER_requires(FSGS_FRESH(fsgs) && __CPROVER_is_fresh(pnode, sizeof(*pnode)) && pnode->leaf != 0)
/* (the arc is named through a ghost pointer: CBMC loses a fresh object assigned through the union member) */
__CPROVER_requires(__CPROVER_is_fresh(verif_fl, sizeof(fsg_link_t)) && __CPROVER_pointer_equals(pnode->next.fsglink, verif_fl))
__CPROVER_requires(verif_fl->wid >= 0 && verif_fl->wid < 8)
__CPROVER_requires(__CPROVER_is_fresh(fsgs->fsg, sizeof(fsg_model_t)) && fsgs->fsg->n_word == 8 && __CPROVER_is_fresh(fsgs->fsg->vocab, 8 * sizeof(char *)))
__CPROVER_requires(fsgs->fsg->vocab[verif_fl->wid] != NULL)
__CPROVER_requires(fsgs->fsg->silwords == NULL || __CPROVER_is_fresh(fsgs->fsg->silwords, sizeof(bitvec_t)))
__CPROVER_requires(__CPROVER_is_fresh(((search_module_t *)fsgs)->dict, sizeof(dict_t)) && __CPROVER_is_fresh(((search_module_t *)fsgs)->dict->word, 8 * sizeof(dictword_t)))
/* ASSUMED lextree structure: the leaf's grammar arc leaves the state whose lextree holds the leaf */
__CPROVER_requires(verif_fl->from_state == verif_psrc)
/* invariant carried through the lextree */
__CPROVER_requires(HIST_SRC(pnode->hmm, verif_psrc))
__CPROVER_requires(0 <= verif_dictwid && verif_dictwid < 8)   /* (ghost: last dictionary id looked up; keeps the clauses below well defined) */
__CPROVER_assigns(verif_add_n, verif_add_link, verif_add_frame, verif_add_score, verif_add_pred, verif_add_lc, verif_add_rc, verif_dictwid)
/* exactly one entry; it carries the leaf's grammar arc, the current frame, the exit score unchanged (C02: no weight
 * is added or dropped at a word exit), the exit back-pointer as predecessor (C03 telescoping), the word's last phone */
__CPROVER_ensures(0 <= verif_dictwid && verif_dictwid < 8)
__CPROVER_ensures(verif_add_n == __CPROVER_old(verif_add_n) + 1)
__CPROVER_ensures(verif_add_link == verif_fl && verif_add_frame == fsgs->frame)
__CPROVER_ensures(verif_add_score == pnode->hmm.out_score && verif_add_pred == pnode->hmm.out_history)
__CPROVER_ensures(verif_add_lc == pnode->ci_ext)
/* fillers and one-phone words serve every right context; other words only the contexts of this leaf */
__CPROVER_ensures(IMP(EXIT_IS_ALLRC(fsgs, pnode), CTXT_ALL(verif_add_rc)))
__CPROVER_ensures(IMP(!EXIT_IS_ALLRC(fsgs, pnode), CTXT_EQ(verif_add_rc, pnode->ctxt)))
;
void h_fsg_search_pnode_exit(void) { fsg_search_t *f; fsg_pnode_t *p; fsg_search_pnode_exit(f, p); VERIF_CANARY(); }

/* ---- phone transition inside a word: children are entered with the parent's exit score plus THEIR arc weight (once),
 * the parent's exit back-pointer, next frame.  The sibling chain is unbounded: it is seen through ONE list cell
 * (verif_pcell) whose content is arbitrary at every loop step subject to the loop invariant, i.e. it stands for "the
 * child reached now".  ASSUMED lextree structure: children belong to the same lextree as their parent (same verif_psrc),
 * a child is not its own parent.  Termination of the chain walk is not proved (acyclic chain assumed). */
static void fsg_search_pnode_trans(fsg_search_t *fsgs, fsg_pnode_t *pnode)
__CPROVER_requires(__CPROVER_is_fresh(fsgs, sizeof(*fsgs)) && __CPROVER_is_fresh(pnode, sizeof(*pnode)) && pnode->leaf == 0)
__CPROVER_requires(pnode->next.succ == NULL || pnode->next.succ == &verif_pcell)
__CPROVER_requires(PCELL_OK)
__CPROVER_requires(fsgs->frame >= 0 && fsgs->frame < 0x3fffffff)
__CPROVER_requires(fsgs->bestscore <= 0 && fsgs->bestscore >= WORST_SCORE && fsgs->beam <= 0 && fsgs->beam >= WORST_SCORE)
__CPROVER_requires(pnode->hmm.out_score <= 0 && pnode->hmm.out_score >= WORST_SCORE)
__CPROVER_requires(HIST_SRC(pnode->hmm, verif_psrc) && HIST_SRC(verif_pcell.hmm, verif_psrc))
__CPROVER_assigns(VERIF_PT_ASSIGNS, verif_trans_calls)
__CPROVER_ensures(verif_trans_calls == __CPROVER_old(verif_trans_calls) + 1)
/* the invariant is kept by every child (the cell is arbitrary) and the parent is untouched */
__CPROVER_ensures(HIST_SRC(verif_pcell.hmm, verif_psrc) && PCELL_OK)
__CPROVER_ensures(pnode->hmm.out_score == __CPROVER_old(pnode->hmm.out_score) && pnode->hmm.out_history == __CPROVER_old(pnode->hmm.out_history))
;
void h_fsg_search_pnode_trans(void) { fsg_search_t *f; fsg_pnode_t *p; fsg_search_pnode_trans(f, p); VERIF_CANARY(); }

/* ---- cross-word transition: every history entry of this frame enters the roots of the lextree of the state it
 * reached, with its own id as back-pointer: HIST_SRC holds for the entered root because d IS the entry's destination.
 * Outer loop: history table of any length (ghost cells, termination proved).  Inner loop: root chain of any length
 * (one list cell).  Root table: at most 4 grammar states (the table is only indexed). */
static void fsg_search_word_trans(fsg_search_t *fsgs)
__CPROVER_requires(__CPROVER_is_fresh(fsgs, sizeof(*fsgs)) && fsgs->history == verif_h)
__CPROVER_requires(__CPROVER_is_fresh(verif_fsg, sizeof(*verif_fsg)) && __CPROVER_pointer_equals(fsgs->fsg, verif_fsg))
__CPROVER_requires(verif_fsg->n_state >= 1 && verif_fsg->n_state <= 4 && verif_fsg->start_state >= 0 && verif_fsg->start_state < verif_fsg->n_state)
__CPROVER_requires(__CPROVER_is_fresh(verif_lt, sizeof(*verif_lt)) && __CPROVER_pointer_equals(fsgs->lextree, verif_lt))
__CPROVER_requires(__CPROVER_is_fresh(verif_lt->root, 4 * sizeof(fsg_pnode_t *)))
__CPROVER_requires((verif_lt->root[0] == NULL || verif_lt->root[0] == &verif_pcell) && (verif_lt->root[1] == NULL || verif_lt->root[1] == &verif_pcell)
                   && (verif_lt->root[2] == NULL || verif_lt->root[2] == &verif_pcell) && (verif_lt->root[3] == NULL || verif_lt->root[3] == &verif_pcell))
__CPROVER_requires(verif_hist_n >= 0 && 0 <= fsgs->bpidx_start && fsgs->bpidx_start <= verif_hist_n && verif_bp_start == fsgs->bpidx_start)
__CPROVER_requires(__CPROVER_pointer_equals(verif_cell.fsglink, &verif_lcell) && verif_cell0.fsglink == NULL)
__CPROVER_requires(fsgs->frame >= 0 && fsgs->frame < 0x3fffffff && verif_cur_frame == fsgs->frame)
__CPROVER_requires(fsgs->bestscore <= 0 && fsgs->bestscore >= WORST_SCORE && fsgs->beam <= 0 && fsgs->beam >= WORST_SCORE)
__CPROVER_assigns(VERIF_WT_ASSIGNS)
__CPROVER_ensures(fsgs->bpidx_start == __CPROVER_old(fsgs->bpidx_start) && fsgs->frame == __CPROVER_old(fsgs->frame))
;
void h_fsg_search_word_trans(void) { fsg_search_t *f; fsg_search_word_trans(f); VERIF_CANARY(); }

/* ---- beam pruning and propagation of the active list: call sites of the two contracts above.  Every precondition of
 * fsg_search_pnode_trans / fsg_search_pnode_exit (replaced by their contracts here) is proved at its call site from the
 * invariant of the active list (ASSUMED for the list as handed in: nodes are active in this or the next frame, carry
 * HIST_SRC, leaves carry their grammar arc), and the decision table of the pruning is proved per node. */
static void fsg_search_hmm_prune_prop(fsg_search_t *fsgs)
__CPROVER_requires(FSGS_FRESH(fsgs) && fsgs->pnode_active_next == NULL)
__CPROVER_requires(__CPROVER_is_fresh(verif_fl, sizeof(fsg_link_t)) && verif_fl->wid >= 0 && verif_fl->wid < 8 && verif_fl->from_state == verif_psrc)
__CPROVER_requires(__CPROVER_is_fresh(fsgs->fsg, sizeof(fsg_model_t)) && fsgs->fsg->n_word == 8 && __CPROVER_is_fresh(fsgs->fsg->vocab, 8 * sizeof(char *)))
__CPROVER_requires(fsgs->fsg->vocab[verif_fl->wid] != NULL)
__CPROVER_requires(fsgs->fsg->silwords == NULL || __CPROVER_is_fresh(fsgs->fsg->silwords, sizeof(bitvec_t)))
__CPROVER_requires(__CPROVER_is_fresh(((search_module_t *)fsgs)->dict, sizeof(dict_t)) && __CPROVER_is_fresh(((search_module_t *)fsgs)->dict->word, 8 * sizeof(dictword_t)))
__CPROVER_requires(fsgs->pnode_active == NULL || fsgs->pnode_active == &verif_gcell)
__CPROVER_requires((verif_gcell.next == NULL || verif_gcell.next == &verif_gcell) && verif_gcell.data.ptr == (void *)&verif_ncell)
__CPROVER_requires(fsgs->frame >= 0 && fsgs->frame < 0x3fffffff)
__CPROVER_requires(fsgs->bestscore <= 0 && fsgs->bestscore >= WORST_SCORE && fsgs->beam <= 0 && fsgs->beam >= WORST_SCORE
                   && fsgs->pbeam <= 0 && fsgs->pbeam >= WORST_SCORE && fsgs->wbeam <= 0 && fsgs->wbeam >= WORST_SCORE)
__CPROVER_requires(NCELL_OK(fsgs) && PCELL_OK && HIST_SRC(verif_pcell.hmm, verif_psrc) && 0 <= verif_dictwid && verif_dictwid < 8)
__CPROVER_assigns(VERIF_PP_ASSIGNS)
__CPROVER_ensures(fsgs->frame == __CPROVER_old(fsgs->frame))
;
void h_fsg_search_hmm_prune_prop(void) { fsg_search_t *f; fsg_search_hmm_prune_prop(f); VERIF_CANARY(); }

void ssw_keep_refs(void) { hmm_t h; hmm_enter(&h, 0, 0, 0); fsg_pnode_ctxt_t c; fsg_pnode_add_all_ctxt(&c); (void)dict_wordid(NULL, NULL); (void)glist_add_ptr(NULL, NULL); (void)fsg_history_n_entries(NULL); (void)fsg_history_entry_get(NULL, 0); }
#endif
