/* C03: frame counters in src/decoder.c */
#include "ssw_ghost.h"
#include <soundswallower/acmod.h>
#define ACMOD_PUBLIC_ONLY
#include "acmod.contracts.h"   /* WF_RING / WF_GROW macros (used by the loop annotation in decoder.c) and the public contracts */
#include "decoder.c"
#ifdef VERIF_ENFORCE_FORWARD
#ifdef SSW_CBMC
int acmod_advance(acmod_t *acmod);   /* contract from acmod.contracts.h (proved in C07) */
#endif
#endif
#include "frames.contracts.h"
#include "ssw_stubs.h"
#ifdef SSW_CBMC
#ifdef VERIF_ENFORCE_FORWARD
int ssw_step(search_module_t *s, int frame_idx) { (void)s; (void)frame_idx; int r; verif_steps++; return r; }
int (*ssw_keep_step)(search_module_t *, int) = ssw_step;
void h_search_module_forward(void) { decoder_t *d; search_module_forward(d); VERIF_CANARY(); }
#else
void h_decoder_process_float32(void) { decoder_t *d; float32 *p; size_t n; int a, b; decoder_process_float32(d, p, n, a, b); VERIF_CANARY(); }
void h_decoder_process_int16(void) { decoder_t *d; int16 *p; size_t n; int a, b; decoder_process_int16(d, p, n, a, b); VERIF_CANARY(); }
#endif
#endif
