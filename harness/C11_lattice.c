/* C11: lattice construction helpers of src/fsg_search.c and src/ps_lattice.c */
#include "ssw_ghost.h"
#include "fsg_hist.ghost.h"
#include "fsg_search.c"
#include "ps_lattice.c"
#include "ssw_stubs.h"
#include <soundswallower/listelem_alloc.h>

#if defined(SSW_CBMC)
/* assumed: the element allocators hand out fresh zeroed objects of the element size */
struct listelem_alloc_s { size_t elemsize; };
listelem_alloc_t *listelem_alloc_init(size_t elemsize) { listelem_alloc_t *l = malloc(sizeof *l); l->elemsize = elemsize; return l; }
void listelem_alloc_free(listelem_alloc_t *le) { free(le); }
void *__listelem_malloc__(listelem_alloc_t *le, char *file, int line) { (void)file; (void)line; return calloc(1, le->elemsize); }
void __listelem_free__(listelem_alloc_t *le, void *elem, char *file, int line) { (void)le; (void)file; (void)line; free(elem); }

/* "asking for the lattice again without new audio returns the same object" and touches nothing */
static lattice_t *fsg_search_lattice(search_module_t *search)
__CPROVER_requires(__CPROVER_is_fresh(search, sizeof(fsg_search_t)) && __CPROVER_is_fresh(search->dag, sizeof(lattice_t)))
__CPROVER_requires(search->dag->n_frames == ((fsg_search_t *)search)->frame)
__CPROVER_assigns()
__CPROVER_ensures(__CPROVER_return_value == search->dag)
;
/* the multi-candidate branch of find_end_node is excluded by the harness (nobody ends in the last frame); symex does not
 * prune it and body-less callees returning nondeterministic pointers made the formula explode: cut the branch here */
int32 fsg_model_word_add(fsg_model_t *fsg, char const *word) { (void)fsg; (void)word; __CPROVER_assert(0, "multi-candidate branch is not reached in this harness"); __CPROVER_assume(0); return 0; }
void h_fsg_search_lattice_cached(void) { search_module_t *s; fsg_search_lattice(s); VERIF_CANARY(); }
#endif

#ifndef NNODE
#define NNODE 3
#endif
/* bounded: node identity (start frame, word, grammar state), end-frame widening, link merge rule */
void r_lattice_nodes(void)
{
    IN(int, in_n); IN_ARR(int, in_sf, NNODE); IN_ARR(int, in_wid, NNODE); IN_ARR(int, in_id, NNODE); IN_ARR(int, in_ef, NNODE);
    IN(int, in_qsf); IN(int, in_qwid); IN(int, in_qid); IN(int, in_qef); IN(int, in_qascr); IN(int, in_a); IN(int, in_b); IN(int, in_s1); IN(int, in_s2);
    static lattice_t dag; static listelem_alloc_t na, la, lla;
    na.elemsize = sizeof(latnode_t); la.elemsize = sizeof(latlink_t); lla.elemsize = sizeof(latlink_list_t);
    dag.latnode_alloc = &na; dag.latlink_alloc = &la; dag.latlink_list_alloc = &lla; dag.nodes = NULL; dag.n_nodes = 0;
    SSW_ASSUME(0 <= in_n && in_n <= NNODE);
    latnode_t *nodes[NNODE];
    for (int i = 0; i < NNODE; i++) {
        SSW_ASSUME(0 <= in_sf[i] && in_sf[i] <= 50 && in_sf[i] <= in_ef[i] && in_ef[i] <= 60 && 0 <= in_wid[i] && in_wid[i] <= 3 && 0 <= in_id[i] && in_id[i] <= 3);
        nodes[i] = NULL;
        if (i < in_n) {
            /* distinct keys among the pre-existing nodes */
            for (int j = 0; j < i; j++) SSW_ASSUME(!(in_sf[i] == in_sf[j] && in_wid[i] == in_wid[j] && in_id[i] == in_id[j]));
            nodes[i] = new_node(&dag, NULL, in_sf[i], in_ef[i], in_wid[i], in_id[i], -5);
        }
    }
    SSW_ASSERT(dag.n_nodes == in_n, "one node per distinct (start frame, word, grammar state)");
    SSW_ASSUME(0 <= in_qsf && in_qsf <= 50 && in_qsf <= in_qef && in_qef <= 60 && 0 <= in_qwid && in_qwid <= 3 && 0 <= in_qid && in_qid <= 3 && -100 <= in_qascr && in_qascr <= 0);
    int match = -1;
    for (int i = 0; i < NNODE; i++) if (i < in_n && in_sf[i] == in_qsf && in_wid[i] == in_qwid && in_id[i] == in_qid) match = i;
    latnode_t *f = find_node(&dag, NULL, in_qsf, in_qwid, in_qid);
    SSW_ASSERT((f != NULL) == (match >= 0) && (match < 0 || f == nodes[match]), "a node is found exactly by its full key");
    int fef0 = match >= 0 ? nodes[match]->fef : 0, lef0 = match >= 0 ? nodes[match]->lef : 0, be0 = match >= 0 ? nodes[match]->info.best_exit : 0;
    latnode_t *nn = new_node(&dag, NULL, in_qsf, in_qef, in_qwid, in_qid, in_qascr);
    if (match >= 0) {
        SSW_ASSERT(nn == nodes[match] && dag.n_nodes == in_n, "an existing key never creates a second node");
        SSW_ASSERT(nn->fef == (in_qef < fef0 ? in_qef : fef0) && nn->lef == (in_qef > lef0 ? in_qef : lef0), "an existing node only widens its end-frame range");
        SSW_ASSERT(nn->info.best_exit == (in_qascr > be0 ? in_qascr : be0), "the best exit score is kept");
    } else {
        SSW_ASSERT(dag.n_nodes == in_n + 1 && nn->sf == in_qsf && nn->wid == in_qwid && nn->node_id == in_qid && nn->fef == in_qef && nn->lef == in_qef, "a new key creates exactly one node");
    }
    SSW_ASSERT(nn->fef <= nn->lef && nn->sf <= nn->fef, "first end frame <= last end frame, start <= end");
    /* links between two existing nodes: one link per ordered pair, best score kept, both lists updated */
    if (in_n >= 2) {
        SSW_ASSUME(0 <= in_a && in_a < in_n && 0 <= in_b && in_b < in_n && in_a != in_b && -100 <= in_s1 && in_s1 <= 0 && -100 <= in_s2 && in_s2 <= 0);
        lattice_link(&dag, nodes[in_a], nodes[in_b], in_s1, 7);
        lattice_link(&dag, nodes[in_a], nodes[in_b], in_s2, 8);
        int cnt = 0; latlink_t *lk = NULL;
        for (latlink_list_t *x = nodes[in_a]->exits; x && cnt < 4; x = x->next) if (x->link->to == nodes[in_b]) { cnt++; lk = x->link; }
        SSW_ASSERT(cnt == 1 && lk->from == nodes[in_a] && lk->ascr == (in_s2 > in_s1 ? in_s2 : in_s1), "one link per ordered node pair carrying the best score");
        SSW_ASSERT(lk->ef == (in_s2 > in_s1 ? 8 : 7), "the link's end frame goes with its score");
        int rc = 0;
        for (latlink_list_t *x = nodes[in_b]->entries; x && rc < 4; x = x->next) if (x->link == lk) rc++;
        SSW_ASSERT(rc == 1, "the reverse list holds the same link exactly once");
    }
    VERIF_CANARY();
}

/* bounded: choice of the end node when no word ends in the last frame: the node (with entries) that exits last */
void r_find_end_node(void)
{
    IN(int, in_n); IN_ARR(int, in_fef, NNODE); IN_ARR(int, in_lef, NNODE); IN_ARR(int, in_has, NNODE); IN(int, in_nframes);
    static lattice_t dag; static listelem_alloc_t na, la, lla; static fsg_model_t fsg;
    fsg_search_t *fsgsp = calloc(1, sizeof *fsgsp); SSW_ASSUME(fsgsp != NULL);
#define fsgs (*fsgsp)
    static char *vocab[4] = { "a", "b", "c", "d" }; static latlink_list_t dummy;
    na.elemsize = sizeof(latnode_t); la.elemsize = sizeof(latlink_t); lla.elemsize = sizeof(latlink_list_t);
    dag.latnode_alloc = &na; dag.latlink_alloc = &la; dag.latlink_list_alloc = &lla; dag.nodes = NULL; dag.n_nodes = 0;
    fsg.vocab = vocab; fsg.n_word = 4; fsgs.fsg = &fsg;
    SSW_ASSUME(1 <= in_n && in_n <= NNODE && 10 <= in_nframes && in_nframes <= 60);
    dag.n_frames = in_nframes; fsgs.frame = in_nframes;
    latnode_t *nodes[NNODE]; int best = -1, nlast = 0;
    for (int i = 0; i < NNODE; i++) {
        nodes[i] = NULL;
        if (i < in_n) {
            SSW_ASSUME(1 <= in_fef[i] && in_fef[i] <= in_lef[i] && in_lef[i] <= in_nframes - 2 && (in_has[i] == 0 || in_has[i] == 1));   /* nobody ends in the last frame */
            for (int j = 0; j < i; j++) SSW_ASSUME(in_lef[i] != in_lef[j]);   /* no ties: the choice is then unique */
            nodes[i] = new_node(&dag, &fsg, i, in_fef[i], i, 0, -5);
            nodes[i]->fef = in_fef[i]; nodes[i]->lef = in_lef[i]; nodes[i]->entries = in_has[i] ? &dummy : NULL;
            if (in_has[i] && (best < 0 || in_lef[i] > in_lef[best])) best = i;
        }
    }
    (void)nlast;
    latnode_t *e = find_end_node(fsgsp, &dag);
#undef fsgs
    SSW_ASSERT((e == NULL) == (best < 0), "an end node is found iff some node has entries");
    SSW_ASSERT(best < 0 || e == nodes[best], "without a word ending in the last frame the end node is the one that exits last");
    VERIF_CANARY();
}
