#include "ssw_ghost.h"
#include "acmod.c"
#define VERIF_TU_ACMOD
#include "reset.contracts.h"
#include "ssw_stubs.h"
#ifdef SSW_CBMC
void h_acmod_start_utt(void) { acmod_t *a; acmod_start_utt(a); VERIF_CANARY(); }
#endif
