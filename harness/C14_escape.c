/* C14 (bounded): json_escape on every word spelling of <= NESC bytes.  The escaped copy is exactly as long as its
 * block, contains no raw control character, quote or backslash, and decodes back to the spelling -- "stays valid for
 * any word spelling in the dictionary".  sprintf is an executable stub for the one format used ("\\u%04x"): it
 * asserts that its argument is below 0x10000 (otherwise %04x prints more than the 4 digits the sizing pass counted). */
#include "ssw_ghost.h"
#include <stdarg.h>
#include <stdio.h>
static int ssw_sprintf(char *buf, const char *fmt, ...);
#define sprintf ssw_sprintf
#include "decoder.c"
#undef sprintf
#include "ssw_stubs.h"
#ifndef NESC
#define NESC 3
#endif
static int ssw_sprintf(char *buf, const char *fmt, ...)
{
    va_list ap; va_start(ap, fmt);
    unsigned v = (unsigned)va_arg(ap, int);   /* an unsigned char argument is promoted to int */
    va_end(ap);
    SSW_ASSERT(fmt[0] == '\\' && fmt[1] == 'u' && fmt[2] == '%' && fmt[3] == '0' && fmt[4] == '4' && fmt[5] == 'x' && fmt[6] == '\0', "sprintf stub: only the format \\u%04x is modelled");
    SSW_ASSERT(v < 0x10000u, "the value printed with %04x has at most 4 hexadecimal digits (what the sizing pass counted)");
    buf[0] = '\\'; buf[1] = 'u';
    for (int i = 0; i < 4; i++) { unsigned dgt = (v >> (12 - 4 * i)) & 15u; buf[2 + i] = (char)(dgt < 10 ? '0' + dgt : 'a' + dgt - 10); }
    buf[6] = '\0';
    return 6;
}
static int hexval(char c) { return (c >= '0' && c <= '9') ? c - '0' : (c >= 'a' && c <= 'f') ? c - 'a' + 10 : -1; }
void r_json_escape(void)
{
    IN_ARR(char, in, NESC + 1);
    SSW_ASSUME(in[NESC] == '\0');
    char *out = json_escape(in);
    size_t j = 0, i;
    SSW_ASSERT(out != NULL, "escaped copy returned");
    for (i = 0; i < NESC && in[i]; i++) {
        unsigned char c = (unsigned char)in[i];
        /* independent JSON string decoder for the one item at out[j] */
        SSW_ASSERT((unsigned char)out[j] >= 0x20 && out[j] != '"', "no raw control character or quote inside the JSON string");
        if (out[j] == '\\') {
            if (out[j + 1] == 'u') {
                int h0 = hexval(out[j + 2]), h1 = hexval(out[j + 3]), h2 = hexval(out[j + 4]), h3 = hexval(out[j + 5]);
                SSW_ASSERT(h0 >= 0 && h1 >= 0 && h2 >= 0 && h3 >= 0, "\\u escape has four hexadecimal digits");
                SSW_ASSERT((unsigned)((h0 << 12) | (h1 << 8) | (h2 << 4) | h3) == c, "\\u escape decodes to the byte of the spelling");
                j += 6;
            } else {
                SSW_ASSERT((out[j + 1] == '"' || out[j + 1] == '\\') && (unsigned char)out[j + 1] == c, "two-character escape decodes to the byte of the spelling");
                j += 2;
            }
        } else {
            SSW_ASSERT((unsigned char)out[j] == c, "plain byte copied unchanged (bytes >= 0x80 included)");
            j += 1;
        }
    }
    SSW_ASSERT(out[j] == '\0', "escaped copy ends where the spelling ends");
#ifdef SSW_CBMC
    SSW_ASSERT(__CPROVER_OBJECT_SIZE(out) == j + 1, "escaped copy is exactly as long as the block allocated for it");
#endif
    ckd_free(out);
    VERIF_CANARY();
}
