/* C13 (bounded): the real null-transition closure, silence and alternate-word transformations on a small grammar,
 * with the real hash table / glist code underneath, compared against a reference computed in the harness. */
#include "ssw_ghost.h"
#include "fsg_model.c"
#include "ssw_stubs.h"
#include <soundswallower/listelem_alloc.h>

#ifndef NST
#define NST 3
#endif
#define NEGINF (-100000000)

#if defined(SSW_CBMC)
/* assumed: the element allocator hands out fresh zeroed objects of the element size */
struct listelem_alloc_s { size_t elemsize; };
listelem_alloc_t *listelem_alloc_init(size_t elemsize) { listelem_alloc_t *l = malloc(sizeof *l); l->elemsize = elemsize; return l; }
void listelem_alloc_free(listelem_alloc_t *le) { free(le); }
void *__listelem_malloc__(listelem_alloc_t *le, char *file, int line) { (void)file; (void)line; return calloc(1, le->elemsize); }
logmath_t *logmath_retain(logmath_t *l) { return l; }
int logmath_free(logmath_t *l) { (void)l; return 0; }
#endif

/* upper-triangular candidate arcs (i < j) plus, for NST >= 3, nothing else: null cycles are excluded (termination of
 * the closure on cycles depends on logp <= 0 and is not claimed) */
void r_null_closure(void)
{
    IN_ARR(int, in_present, NST * NST); IN_ARR(int, in_logp, NST * NST); IN(int, in_rot); IN(int, in_q);
    int best[NST][NST];
    fsg_model_t *fsg = fsg_model_init("g", NULL, 1.0f, NST);
    int narc = 0;
    fsg_link_t *arcs[NST * NST];
    for (int i = 0; i < NST; i++)
        for (int j = 0; j < NST; j++) {
            best[i][j] = NEGINF;
            if (i < j) {
                SSW_ASSUME(in_present[i * NST + j] == 0 || in_present[i * NST + j] == 1);
#ifdef ALL_PRESENT
                /* structure concrete (every arc i<j present, list order fixed by ROT): only the probabilities are symbolic */
                SSW_ASSUME(in_present[i * NST + j] == 1);
#endif
                SSW_ASSUME(in_logp[i * NST + j] <= 0 && in_logp[i * NST + j] >= -1000);
                if (in_present[i * NST + j]) {
                    int k = fsg_model_null_trans_add(fsg, i, j, in_logp[i * NST + j]);
                    SSW_ASSERT(k == 1, "a new null arc is created");
                    best[i][j] = in_logp[i * NST + j];
                    arcs[narc++] = fsg_model_null_trans(fsg, i, j);
                }
            }
        }
    /* reference: max-plus transitive closure (Floyd-Warshall) */
    for (int k = 0; k < NST; k++)
        for (int i = 0; i < NST; i++)
            for (int j = 0; j < NST; j++)
                if (best[i][k] > NEGINF && best[k][j] > NEGINF && best[i][k] + best[k][j] > best[i][j])
                    best[i][j] = best[i][k] + best[k][j];
    /* the caller-supplied list of null arcs in an arbitrary rotation (the closure must not depend on the order) */
    glist_t nulls = NULL;
    SSW_ASSUME(0 <= in_rot && in_rot < NST * NST);
#ifdef ROT
    SSW_ASSUME(in_rot == ROT);
#endif
    for (int a = 0; a < NST * NST; a++)
        if (a < narc) nulls = glist_add_ptr(nulls, arcs[(a + in_rot) % narc]);
    nulls = fsg_model_null_trans_closure(fsg, nulls);
    SSW_ASSUME(0 <= in_q && in_q < NST * NST);
    int qi = in_q / NST, qj = in_q % NST;
    fsg_link_t *l = fsg_model_null_trans(fsg, qi, qj);
    if (qi != qj) {
        SSW_ASSERT((l != NULL) == (best[qi][qj] > NEGINF), "closure has an arc exactly where a null path exists");
        SSW_ASSERT(l == NULL || l->logs2prob == best[qi][qj], "closure arc carries the best null-path probability");
        SSW_ASSERT(l == NULL || (l->from_state == qi && l->to_state == qj && l->wid < 0), "closure arc is a null arc between the right states");
    }
    /* closing twice changes nothing */
    int before = l ? l->logs2prob : NEGINF;
    glist_t again = fsg_model_null_trans_closure(fsg, NULL);
    fsg_link_t *l2 = fsg_model_null_trans(fsg, qi, qj);
    SSW_ASSERT((l2 != NULL) == (l != NULL) && (l2 == NULL || l2->logs2prob == before), "a second closure changes nothing");
    (void)again;
    VERIF_CANARY();
}

/* Silence self-loops and alternate-word arcs on a grammar with symbolic word arcs between NST states. */
void r_add_silence_alt(void)
{
    IN_ARR(int, in_present, NST * NST); IN_ARR(int, in_logp, NST * NST); IN_ARR(int, in_wid, NST * NST); IN(int, in_q); IN(int, in_mode);
    fsg_model_t *fsg = fsg_model_init("g", NULL, 1.0f, NST);
    int w0 = fsg_model_word_add(fsg, "a"), w1 = fsg_model_word_add(fsg, "b");
    SSW_ASSERT(w0 == 0 && w1 == 1, "word ids are assigned in order");
    for (int i = 0; i < NST; i++)
        for (int j = 0; j < NST; j++) {
            SSW_ASSUME(in_present[i * NST + j] == 0 || in_present[i * NST + j] == 1);
            SSW_ASSUME(in_logp[i * NST + j] <= 0 && in_logp[i * NST + j] >= -1000 && (in_wid[i * NST + j] == 0 || in_wid[i * NST + j] == 1));
#ifdef ALL_PRESENT
            /* structure concrete: every arc present, label (from state) mod 2; only the probabilities stay symbolic */
            SSW_ASSUME(in_present[i * NST + j] == 1 && in_wid[i * NST + j] == i % 2);
#endif
            if (in_present[i * NST + j]) fsg_model_trans_add(fsg, i, j, in_logp[i * NST + j], in_wid[i * NST + j]);
        }
    SSW_ASSUME(0 <= in_q && in_q < NST * NST && (in_mode == 0 || in_mode == 1));
#ifdef MODE
    SSW_ASSUME(in_mode == MODE);
#endif
#ifdef QPAIR
    SSW_ASSUME(in_q == QPAIR);
#endif
    int qi = in_q / NST, qj = in_q % NST;
    /* count arcs of the witness pair by label */
#define COUNT(var, lab, prob) do { var = 0; prob = NEGINF; int guard_ = 0; for (gnode_t *gn_ = fsg_model_trans(fsg, qi, qj); gn_ && guard_ < 8; gn_ = gnode_next(gn_), guard_++) { \
        fsg_link_t *fl_ = gnode_ptr(gn_); SSW_ASSERT(fl_->from_state == qi && fl_->to_state == qj, "every arc filed under (from, to) has those endpoints"); if (fl_->wid == (lab)) { var++; prob = fl_->logs2prob; } } } while (0)
    int c_before, p_before, c_after, p_after, c_new, p_new;
    if (in_mode == 0) {
        fsg->lmath = NULL;
        /* logsilp is computed through logmath (libm): a stub value is used instead of silprob */
        COUNT(c_before, 0, p_before);
        int silwid = fsg_model_word_add(fsg, "<sil>");
        fsg->silwords = bitvec_alloc(fsg->n_word_alloc);
        bitvec_set(fsg->silwords, silwid);
        for (int src = 0; src < fsg->n_state; src++) fsg_model_trans_add(fsg, src, src, -7, silwid);
        /* adding it twice changes nothing further (merge rule of fsg_model_trans_add) */
        for (int src = 0; src < fsg->n_state; src++) fsg_model_trans_add(fsg, src, src, -7, silwid);
        COUNT(c_after, 0, p_after); COUNT(c_new, silwid, p_new);
        SSW_ASSERT(c_after == c_before && p_after == p_before, "real-word arcs are untouched by silence loops");
        SSW_ASSERT(c_new == (qi == qj ? 1 : 0) && (qi != qj || p_new == -7), "exactly one silence self-loop per state, none elsewhere");
    } else {
        COUNT(c_before, 0, p_before);
        int n = fsg_model_add_alt(fsg, "a", "a(2)");
        COUNT(c_after, 0, p_after); COUNT(c_new, 2, p_new);
        SSW_ASSERT(n >= 0, "alternate added");
        SSW_ASSERT(c_after == c_before && p_after == p_before, "base-word arcs are kept");
        SSW_ASSERT(c_new == c_before && (c_new == 0 || p_new == p_before), "every base-word arc gets one twin with the same endpoints and probability");
        COUNT(c_after, 1, p_after);
        SSW_ASSERT(c_after <= 1, "other words are not duplicated");
    }
    VERIF_CANARY();
}
