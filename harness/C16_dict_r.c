/* C16: constructive harness for dict_add_word (also the native replay driver).  The word hash table is an executable
 * map stub observed at the two keys the call touches (base spelling, new spelling); C20 checks the map view on the real
 * hash table.  Strings are short concrete-length buffers with symbolic content. */
#include "ssw_ghost.h"
#define hash_table_lookup_int32 ssw_ht_lookup_int32
#define hash_table_enter ssw_ht_enter
#include "dict.c"
#undef hash_table_lookup_int32
#undef hash_table_enter
#define SSW_NO_ALLOC_STUBS
#include "ssw_stubs.h"
#ifdef SSW_CBMC
void *__ckd_calloc__(size_t n, size_t sz, const char *file, int line) { (void)file; (void)line; return calloc(n, sz); }
void *__ckd_malloc__(size_t sz, const char *file, int line) { (void)file; (void)line; return malloc(sz); }
char *__ckd_salloc__(const char *orig, const char *file, int line) { (void)file; (void)line; size_t n = strlen(orig) + 1; char *p = malloc(n); memcpy(p, orig, n); return p; }
void ckd_free(void *ptr) { free(ptr); }
/* the table-growth path is excluded by n_word < max_words; symex does not prune it by itself and CBMC's realloc model of
 * a 130 kB block exhausts memory, so the path is cut here (growth keeping contents is NOT covered) */
void *__ckd_realloc__(void *p, size_t sz, const char *file, int line)
{ (void)p; (void)sz; (void)file; (void)line; __CPROVER_assert(0, "table growth is not reached in this harness"); __CPROVER_assume(0); return NULL; }
#endif

#define NW 4
static int g_base_present, g_base_wid, g_dup_present, g_dup_wid, g_entered;
int32 ssw_ht_lookup_int32(hash_table_t *h, const char *key, int32 *val)
{ (void)h; (void)key; if (g_base_present) { *val = g_base_wid; return 0; } return -1; }
void *ssw_ht_enter(hash_table_t *h, const char *key, void *val)
{ (void)h; (void)key; if (g_dup_present) return (void *)(size_t)g_dup_wid; g_entered++; return val; }

void r_dict_add_word(void)
{
    IN(int, in_n); IN(int, in_base_present); IN(int, in_base_wid); IN(int, in_dup_present); IN(int, in_dup_wid);
    IN(int, in_kind); IN(int, in_np); IN(int, in_w); IN_ARR(short, in_p, 3); IN_ARR(int, in_alt, NW); IN_ARR(int, in_bw, NW); IN_ARR(int, in_plen, NW);
    static dict_t d; static dictword_t words[NW]; static hash_table_t ht; static dictword_t before[NW];
    static char *names[NW] = { "a", "b", "c", "e" };
    SSW_ASSUME(0 <= in_n && in_n < NW && 0 <= in_w && in_w < NW && 0 <= in_np && in_np <= 3 && 0 <= in_kind && in_kind <= 2);
    SSW_ASSUME((in_base_present == 0 || in_base_present == 1) && (in_dup_present == 0 || in_dup_present == 1));
    SSW_ASSUME(!in_base_present || (0 <= in_base_wid && in_base_wid < in_n));
    SSW_ASSUME(!in_dup_present || (0 <= in_dup_wid && in_dup_wid < in_n));
    for (int i = 0; i < NW; i++) {
        words[i].word = i < in_n ? names[i] : NULL; words[i].ciphone = NULL;
        words[i].pronlen = in_plen[i]; words[i].alt = in_alt[i]; words[i].basewid = in_bw[i];
        before[i] = words[i];
    }
    d.word = words; d.ht = &ht; d.max_words = NW; d.n_word = in_n; d.refcnt = 1;
    g_base_present = in_base_present; g_base_wid = in_base_wid; g_dup_present = in_dup_present; g_dup_wid = in_dup_wid; g_entered = 0;
    /* kind 0: plain word, 1: alternate "x(2)", 2: empty word */
    const char *word = in_kind == 0 ? "zed" : in_kind == 1 ? "a(2)" : "";
    s3wid_t r = dict_add_word(&d, word, in_np ? (s3cipid_t const *)in_p : NULL, in_np);
    int is_alt = in_kind == 1;
    if (in_kind == 2) {
        SSW_ASSERT(r == BAD_S3WID || r == in_n, "empty word: call returns");
    }
    if (r == BAD_S3WID) {
        SSW_ASSERT(d.n_word == in_n && g_entered == 0, "a rejected addition does not grow the dictionary");
        if (in_w < in_n)
            SSW_ASSERT(words[in_w].word == before[in_w].word && words[in_w].pronlen == before[in_w].pronlen && words[in_w].basewid == before[in_w].basewid
                       && words[in_w].alt == before[in_w].alt && words[in_w].ciphone == before[in_w].ciphone,
                       "a rejected addition leaves every existing entry unchanged");
        SSW_ASSERT(in_dup_present || (is_alt && !in_base_present), "an addition is rejected only for a duplicate or an alternate without base word");
    } else {
        SSW_ASSERT(!in_dup_present && !(is_alt && !in_base_present), "duplicates and alternates without a base word are rejected");
        SSW_ASSERT(r == in_n && d.n_word == in_n + 1 && g_entered == 1, "the new word gets the next id and is entered once");
        SSW_ASSERT(words[r].pronlen == in_np, "the new entry has the given pronunciation length");
        for (int k = 0; k < 3; k++) if (k < in_np) SSW_ASSERT(words[r].ciphone[k] == in_p[k], "the new entry has the given pronunciation");
        if (is_alt) {
            SSW_ASSERT(words[r].basewid == in_base_wid && words[in_base_wid].alt == r && words[r].alt == before[in_base_wid].alt,
                       "an alternate is linked at the head of its base word's chain");
        } else {
            SSW_ASSERT(words[r].basewid == r && words[r].alt == BAD_S3WID, "a base word is its own base and has no alternates");
        }
        if (in_w < in_n)
            SSW_ASSERT(words[in_w].word == before[in_w].word && words[in_w].pronlen == before[in_w].pronlen && words[in_w].basewid == before[in_w].basewid
                       && words[in_w].ciphone == before[in_w].ciphone
                       && (words[in_w].alt == before[in_w].alt || (is_alt && in_w == in_base_wid)),
                       "every previously known word keeps its identity and pronunciation");
    }
    VERIF_CANARY();
}

/* dict_word2basestr on short strings: strips exactly a trailing "(...)", never reads outside the string */
void r_word2basestr(void)
{
    IN_ARR(char, in_s, 6); IN(int, in_len);
    SSW_ASSUME(0 <= in_len && in_len <= 5);
    char *w = malloc((size_t)in_len + 1);
    SSW_ASSUME(w != NULL);
    for (int i = 0; i < 5; i++) if (i < in_len) { SSW_ASSUME(in_s[i] != 0); w[i] = in_s[i]; }
    w[in_len] = 0;
    int32 r = dict_word2basestr(w);
    SSW_ASSERT(r == -1 || (r > 0 && r < in_len && in_s[r] == '(' && in_s[in_len - 1] == ')' && w[r] == 0), "strips exactly a trailing parenthesised suffix");
    free(w);
    VERIF_CANARY();
}
