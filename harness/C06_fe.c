/* C06 (bounded): the real fe_process and its overflow helpers on a small geometry (frame_size FS, frame_shift SH),
 * a signal of NS concrete, pairwise different samples, split into <= 3 chunks of symbolic sizes, each processed with a
 * symbolic per-call limit on output frames.  The DSP stage is a stub that maintains the analysis window exactly as the
 * real fe_read_frame_* / fe_shift_frame_* do (first FS samples, then shift by SH) and records the window of every frame
 * written.  Obligations: frame k's window is S[k*SH .. k*SH+FS) whatever the chunking and limits; the number of
 * frames depends only on the number of samples; every sample is consumed; every access stays in its buffer. */
#include "ssw_ghost.h"
#ifndef FS
#define FS 5
#endif
#ifndef SH
#define SH 2
#endif
#ifndef NS
#define NS 11
#endif
#define MAXFR (NS)
struct fe_s; typedef struct fe_s fe_t;
#define fe_read_frame_float32 ssw_read_f32
#define fe_read_frame_int16 ssw_read_i16
#define fe_shift_frame_float32 ssw_shift_f32
#define fe_shift_frame_int16 ssw_shift_i16
#define fe_write_frame ssw_write_frame
#include "fe_interface.c"
#undef fe_read_frame_float32
#undef fe_read_frame_int16
#undef fe_shift_frame_float32
#undef fe_shift_frame_int16
#undef fe_write_frame
#include "ssw_stubs.h"

static float g_win[FS]; static int g_winlen;
static float g_frames[MAXFR + 2][FS]; static int g_flen[MAXFR + 2]; static int g_nfr;
int ssw_read_f32(fe_t *fe, float32 const *in, int32 len)
{ if (len > fe->frame_size) len = fe->frame_size; for (int i = 0; i < FS; i++) g_win[i] = i < len ? in[i] * 32768.0f : 0.0f; g_winlen = len; return len; }
int ssw_read_i16(fe_t *fe, int16 const *in, int32 len)
{ if (len > fe->frame_size) len = fe->frame_size; for (int i = 0; i < FS; i++) g_win[i] = i < len ? (float)in[i] : 0.0f; g_winlen = len; return len; }
int ssw_shift_f32(fe_t *fe, float32 const *in, int32 len)
{ if (len > fe->frame_shift) len = fe->frame_shift; for (int i = 0; i < FS - SH; i++) g_win[i] = g_win[i + SH]; for (int i = 0; i < SH; i++) g_win[FS - SH + i] = i < len ? in[i] * 32768.0f : 0.0f; g_winlen = FS - SH + len; return len; }
int ssw_shift_i16(fe_t *fe, int16 const *in, int32 len)
{ if (len > fe->frame_shift) len = fe->frame_shift; for (int i = 0; i < FS - SH; i++) g_win[i] = g_win[i + SH]; for (int i = 0; i < SH; i++) g_win[FS - SH + i] = i < len ? (float)in[i] : 0.0f; g_winlen = FS - SH + len; return len; }
int ssw_write_frame(fe_t *fe, mfcc_t *fea)
{ (void)fe; (void)fea; if (g_nfr < MAXFR + 2) { for (int i = 0; i < FS; i++) g_frames[g_nfr][i] = g_win[i]; g_flen[g_nfr] = g_winlen; } g_nfr++; return 1; }

void r_fe_chunking(void)
{
#ifndef NCHUNK
#define NCHUNK 3
#endif
    IN_ARR(int, in_chunk, 3); IN_ARR(int, in_lim, 8); IN(int, in_float);
    static fe_t fe; static float32 ovf[FS]; static float32 sf[NS]; static int16 si[NS];
    static mfcc_t cepbuf[4]; static mfcc_t *ceps[4] = { cepbuf, cepbuf, cepbuf, cepbuf };
    SSW_ASSUME(in_float == 0 || in_float == 1);
    g_nfr = 0; g_winlen = 0;
#ifdef CHUNKS
    /* chunk sizes concrete per run (symbolic chunk boundaries make every buffer offset symbolic: did not finish in 15 min);
     * the per-call output limits and the encoding stay symbolic */
    { static const int cs[3] = { CHUNKS }; SSW_ASSUME(in_chunk[0] == cs[0] && in_chunk[1] == cs[1] && in_chunk[2] == cs[2]); }
#endif
    for (int i = 0; i < NS; i++) { si[i] = (int16)(i + 1); sf[i] = (float32)(i + 1) / 32768.0f; }
    fe.frame_size = FS; fe.frame_shift = SH; fe.overflow_samps = ovf; fe.num_overflow_samps = 0; fe.swap = 0;
    int total = 0, calls = 0, last_cut = 0;
    for (int c = 0; c < NCHUNK; c++) {
        SSW_ASSUME(0 <= in_chunk[c] && total + in_chunk[c] <= NS);
        float32 *pf = sf + total; int16 *pi = si + total;
        size_t n = (size_t)in_chunk[c];
        total += in_chunk[c];
        /* the client loop: call again while samples remain (output limited per call) */
        for (int it = 0; it < 4; it++) {
            if (n == 0) break;
            SSW_ASSUME(calls < 8 && 1 <= in_lim[calls] && in_lim[calls] <= 3);
            int lim = in_lim[calls++];
            int r = in_float ? fe_process_float32(&fe, &pf, &n, ceps, lim) : fe_process_int16(&fe, &pi, &n, ceps, lim);
            SSW_ASSERT(r >= 0 && r <= lim, "no more frames than allowed are written");
            last_cut = (r == lim);      /* this call stopped at its output limit */
            SSW_ASSERT(in_float ? (pf + n == sf + total) : (pi + n == si + total), "every sample of the chunk is either consumed or still pending");
        }
        SSW_ASSERT(n == 0, "with repeated calls the whole chunk is consumed");
    }
    /* end of stream: the pending samples come out as one trailing (zero padded) frame */
    int nproc = g_nfr;
    int rend = fe_end(&fe, ceps, 3);
    SSW_ASSERT(rend == g_nfr - nproc && (rend == 0 || rend == 1), "fe_end reports the frames it wrote");
    /* the number of frames depends only on the total number of samples (one-shot schedule): full windows + one
     * trailing partial frame if samples remain after the last full window */
    int nfull = total >= FS ? 1 + (total - FS) / SH : 0;
    int rest = total >= FS ? total - nfull * SH : total;     /* samples not yet shifted out after the last full frame */
    int expect = nfull + (rest > 0 ? 1 : 0);
    if (g_nfr != expect) {
        /* KNOWN FINDING (known_findings.txt): the stream ends exactly on a window boundary (total == size + k*shift) after a
         * call that was cut short by its output limit: the pending FULL window is emitted by fe_end in place of the
         * trailing partial frame, one frame fewer than the one-shot schedule.  Any other mismatch is a new violation. */
        int known_edge = total >= FS && (total - FS) % SH == 0 && g_nfr == expect - 1 && nproc == nfull - 1 && last_cut;
        SSW_ASSERT(known_edge, "the number of frames depends only on the number of samples");
        SSW_ASSERT(!known_edge, "KNOWN-EDGE stream ends on a window boundary after an output-limited call: fe_end emits the pending full window instead of the trailing partial frame (one frame fewer)");
    }
    for (int k = 0; k < MAXFR; k++)
        if (k < g_nfr && k < nfull) {
            SSW_ASSERT(g_flen[k] == FS, "every full frame has a full window");
            for (int i = 0; i < FS; i++)
                SSW_ASSERT(g_frames[k][i] == (float)(k * SH + i + 1), "frame k is computed from samples k*shift .. k*shift+size-1, however the audio was chunked");
        }
    if (g_nfr == expect && rest > 0) {
        int k = nfull;
        for (int i = 0; i < FS; i++)
            SSW_ASSERT(g_frames[k][i] == (i < rest ? (float)(k * SH + i + 1) : 0.0f), "the trailing frame holds the remaining samples, zero padded");
    }
    VERIF_CANARY();
}
