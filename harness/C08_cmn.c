/* C08 (bounded): cmn_set_repr -- after setting the channel-normalisation state from text, EVERY coefficient of the
 * accumulator is determined by the text alone (coefficients the text does not name are zero), whatever the state was. */
#include "ssw_ghost.h"
#include <stdio.h>
#include <stdlib.h>
double ssw_atof(const char *s);
#define atof ssw_atof
/* the text export (snprintf "%g") is outside this check: every call formats 2 characters */
#define snprintf(buf, size, ...) ((buf) ? (((char *)(buf))[0] = '0', ((char *)(buf))[1] = ',', 2) : 2)
#include "cmn.c"
#undef atof
#undef snprintf
#include "ssw_stubs.h"
#ifndef VL
#define VL 3
#endif
/* deterministic stand-in for atof: a one-digit number */
double ssw_atof(const char *s) { return (s[0] >= '0' && s[0] <= '9') ? (double)(s[0] - '0') : 0.0; }

void r_cmn_set_repr(void)
{
    IN_ARR(char, in_text, 5); IN(int, in_len); IN_ARR(int, in_oldsum, VL); IN_ARR(int, in_oldmean, VL); IN(int, in_q);
    static cmn_t cmn; static mfcc_t mean[VL], sum[VL], var[VL];
    SSW_ASSUME(0 <= in_len && in_len <= 5 && 0 <= in_q && in_q < VL);
    char text[6];
    int nvals_expected = 0;
    for (int i = 0; i < 5; i++) { text[i] = i < in_len ? in_text[i] : 0; if (i < in_len) SSW_ASSUME((in_text[i] >= '0' && in_text[i] <= '9') || in_text[i] == ','); }
    text[5] = 0;
    for (int i = 0; i < VL; i++) { SSW_ASSUME(-1000 <= in_oldsum[i] && in_oldsum[i] <= 1000 && -10 <= in_oldmean[i] && in_oldmean[i] <= 10); mean[i] = (mfcc_t)in_oldmean[i]; sum[i] = (mfcc_t)in_oldsum[i]; }
    cmn.cmn_mean = mean; cmn.sum = sum; cmn.cmn_var = var; cmn.veclen = VL; cmn.nframe = 77; cmn.repr = NULL;
    /* reference: split at commas, one value per field, at most VL values */
    float expect[VL]; for (int i = 0; i < VL; i++) expect[i] = 0.0f;
    { int pos = 0, f = 0;
      while (f < VL) {
          int start = pos; while (pos < in_len && text[pos] != ',') pos++;
          if (pos >= in_len) { if (start < in_len) expect[f] = (float)ssw_atof(text + start); break; }
          expect[f] = (start < pos) ? (float)ssw_atof(text + start) : 0.0f; f++; pos++;
      }
      (void)nvals_expected; }
    cmn_set_repr(&cmn, text);
    SSW_ASSERT(cmn.cmn_mean[in_q] == expect[in_q], "every mean coefficient is what the text says (zero if the text does not name it)");
    SSW_ASSERT(cmn.sum[in_q] == cmn.cmn_mean[in_q] * CMN_WIN, "every accumulator coefficient is mean * window, independent of the state before");
    SSW_ASSERT(cmn.nframe == CMN_WIN, "the frame count is reset");
    VERIF_CANARY();
}
