/* C20: harnesses for src/hash_table.c */
#include "ssw_ghost.h"
#include "hash_table.c"
#include "hash_table.contracts.h"
#include "ssw_stubs.h"

#ifndef MAXCHAIN
#define MAXCHAIN 3
#endif
#ifndef KLEN
#define KLEN 2
#endif

#ifdef SSW_CBMC
void h_key2hash(void) { hash_table_t *h; const char *k; key2hash(h, k); VERIF_CANARY(); }
void h_keycmp_case(void) { hash_entry_t *e; const char *k; keycmp_case(e, k); VERIF_CANARY(); }
void h_keycmp_nocase(void) { hash_entry_t *e; const char *k; keycmp_nocase(e, k); VERIF_CANARY(); }
void h_makekey(void) { uint8 *d; size_t n; char *k; makekey(d, n, k); VERIF_CANARY(); }
#endif

/* ---- specification of key equality (property statement), independent of keycmp_* ---- */
static int spec_keyeq(const char *a, size_t la, const char *b, size_t lb, int nocase)
{
    if (la != lb) return 0;
    for (size_t k = 0; k < KLEN; k++)
        if (k < la && !SPEC_BYTE_EQ(a[k], b[k], nocase)) return 0;
    return 1;
}

/* exact equivalence of keycmp_* with the specification on keys of length <= KLEN */
void r_keycmp_exact(void)
{
    IN_ARR(char, in_a, KLEN); IN_ARR(char, in_b, KLEN); IN(unsigned, in_len); IN(int, in_nocase);
    SSW_ASSUME(in_len <= KLEN);
    hash_entry_t e; e.key = in_a; e.len = in_len; e.val = 0; e.next = 0;
    int32 r = in_nocase ? keycmp_nocase(&e, in_b) : keycmp_case(&e, in_b);
    SSW_ASSERT((r == 0) == (spec_keyeq(in_a, in_len, in_b, in_len, in_nocase) != 0), "keycmp_* returns 0 exactly for equal keys");
    VERIF_CANARY();
}

/* ---- one bucket of a table: chain of n <= MAXCHAIN entries with distinct keys, plus a second bucket ---- */
struct model { char keys[MAXCHAIN][KLEN]; size_t lens[MAXCHAIN]; void *vals[MAXCHAIN]; int n; };

static void build(hash_table_t *ht, hash_entry_t *slots, struct model *m, int nocase, int other_used,
                  const char *okey, size_t olen, void *oval)
{
    ht->size = 2; ht->table = slots; ht->nocase = nocase; ht->inuse = m->n + (other_used ? 1 : 0);
    for (int s = 0; s < 2; s++) { slots[s].key = NULL; slots[s].len = 0; slots[s].val = NULL; slots[s].next = NULL; }
    hash_entry_t *prev = NULL;
    for (int i = 0; i < MAXCHAIN; i++) {
        if (i < m->n) {
            hash_entry_t *nd = (i == 0) ? &slots[0] : (hash_entry_t *)malloc(sizeof(hash_entry_t));
            SSW_ASSUME(nd != NULL);
            nd->key = m->keys[i]; nd->len = m->lens[i]; nd->val = m->vals[i]; nd->next = NULL;
            if (prev) prev->next = nd;
            prev = nd;
        }
    }
    if (other_used) { slots[1].key = okey; slots[1].len = olen; slots[1].val = oval; }
}
static int model_find(struct model *m, const char *key, size_t len, int nocase)
{
    for (int i = 0; i < MAXCHAIN; i++)
        if (i < m->n && spec_keyeq(m->keys[i], m->lens[i], key, len, nocase)) return i;
    return -1;
}
static int chain_len(hash_entry_t *slot)
{
    int c = 0;
    if (slot->key == NULL) return 0;
    for (hash_entry_t *e = slot; e != NULL && c <= MAXCHAIN + 1; e = e->next) c++;
    return c;
}

/* One operation from an arbitrary well-formed bucket: the induction step of "behaves as a map under any history". */
void r_hash_op(void)
{
    struct model m;
    IN(int, in_n); IN(int, in_nocase); IN(int, in_op); IN(int, in_other); IN(int, in_q);
    IN_ARR(char, in_k0, KLEN); IN_ARR(char, in_k1, KLEN); IN_ARR(char, in_k2, KLEN);
#if MAXCHAIN > 3
    IN_ARR(char, in_k3, KLEN);
#endif
    IN_ARR(unsigned, in_lens, MAXCHAIN); IN_ARR(long, in_vals, MAXCHAIN);
    IN_ARR(char, in_key, KLEN); IN(unsigned, in_len); IN(long, in_val);
    IN_ARR(char, in_okey, KLEN); IN(unsigned, in_olen); IN(long, in_oval);
    SSW_ASSUME(0 <= in_n && in_n <= MAXCHAIN && (in_nocase == 0 || in_nocase == 1) && 0 <= in_op && in_op <= 3);
    SSW_ASSUME(in_other == 0 || in_other == 1);
    SSW_ASSUME(in_len <= KLEN && in_olen <= KLEN);
    m.n = in_n;
    for (int i = 0; i < MAXCHAIN; i++) {
        SSW_ASSUME(in_lens[i] <= KLEN);
        m.lens[i] = in_lens[i]; m.vals[i] = (void *)in_vals[i];
        for (int k = 0; k < KLEN; k++)
            m.keys[i][k] = i == 0 ? in_k0[k] : i == 1 ? in_k1[k] : i == 2 ? in_k2[k] :
#if MAXCHAIN > 3
                in_k3[k];
#else
                0;
#endif
    }
    /* map invariant: keys of live entries pairwise different under the table's case mode */
    for (int i = 0; i < MAXCHAIN; i++)
        for (int j = i + 1; j < MAXCHAIN; j++)
            if (j < m.n) SSW_ASSUME(!spec_keyeq(m.keys[i], m.lens[i], m.keys[j], m.lens[j], in_nocase));
    hash_table_t ht; hash_entry_t slots[2];
    build(&ht, slots, &m, in_nocase, in_other, in_okey, in_olen, (void *)in_oval);
    int n0 = ht.inuse;
    int idx = model_find(&m, in_key, in_len, in_nocase);
    SSW_ASSUME(0 <= in_q && in_q < MAXCHAIN);
    void *r;
    hash_entry_t *e;
    switch (in_op) {
    case 0: /* lookup */
        e = lookup(&ht, 0, in_key, in_len);
        SSW_ASSERT((e != NULL) == (idx >= 0), "lookup succeeds exactly for present keys");
        SSW_ASSERT(e == NULL || e->val == m.vals[idx], "lookup returns the value stored for an equal key");
        SSW_ASSERT(ht.inuse == n0, "lookup does not change the entry count");
        break;
    case 1: /* enter */
    case 2: /* replace */
        r = enter(&ht, 0, in_key, in_len, (void *)in_val, in_op == 2);
        if (idx >= 0) {
            SSW_ASSERT(r == m.vals[idx], "enter/replace of a present key returns the old value");
            SSW_ASSERT(ht.inuse == n0, "entry count unchanged for a present key");
            e = lookup(&ht, 0, in_key, in_len);
            SSW_ASSERT(e != NULL && e->val == (in_op == 2 ? (void *)in_val : m.vals[idx]), "replace stores the new value, enter keeps the old one");
        } else {
            SSW_ASSERT(r == (void *)in_val, "enter of an absent key returns the new value");
            SSW_ASSERT(ht.inuse == n0 + 1, "entry count incremented for a new key");
            e = lookup(&ht, 0, in_key, in_len);
            SSW_ASSERT(e != NULL && e->val == (void *)in_val, "a newly entered key is found with its value");
            SSW_ASSERT(chain_len(&slots[0]) == m.n + 1, "exactly one entry added to the bucket");
        }
        if (in_q < m.n && in_q != idx) {
            e = lookup(&ht, 0, m.keys[in_q], m.lens[in_q]);
            SSW_ASSERT(e != NULL && e->val == m.vals[in_q], "every other binding keeps its value");
        }
        break;
    default: /* delete */
        r = delete(&ht, 0, in_key, in_len);
        if (idx < 0) {
            SSW_ASSERT(r == NULL, "delete of an absent key returns NULL");
            SSW_ASSERT(ht.inuse == n0, "entry count unchanged when nothing is deleted");
            SSW_ASSERT(chain_len(&slots[0]) == m.n, "bucket unchanged when nothing is deleted");
        } else {
            SSW_ASSERT(r == m.vals[idx], "delete returns the value of the deleted binding");
            SSW_ASSERT(ht.inuse == n0 - 1, "entry count decremented");
            SSW_ASSERT(lookup(&ht, 0, in_key, in_len) == NULL, "the deleted key is no longer found");
            SSW_ASSERT(chain_len(&slots[0]) == m.n - 1, "exactly one entry removed from the bucket");
        }
        if (in_q < m.n && in_q != idx) {
            e = lookup(&ht, 0, m.keys[in_q], m.lens[in_q]);
            SSW_ASSERT(e != NULL && e->val == m.vals[in_q], "every other binding keeps its value");
        }
        break;
    }
    /* representation invariant and the neighbouring bucket */
    SSW_ASSERT((slots[0].key == NULL) == (chain_len(&slots[0]) == 0), "head key NULL iff the bucket is empty");
    SSW_ASSERT(slots[1].key == (in_other ? in_okey : NULL) && slots[1].val == (in_other ? (void *)in_oval : NULL)
               && slots[1].next == NULL, "the other bucket is untouched");
    VERIF_CANARY();
}

/* Iteration and list export visit every live entry exactly once; the iterator frees itself at the end;
 * hash_table_empty clears everything. */
void r_hash_iter(void)
{
    struct model m;
    IN(int, in_n); IN(int, in_other); IN(int, in_q); IN(int, in_mode);
    IN_ARR(long, in_vals, MAXCHAIN);
    SSW_ASSUME(0 <= in_n && in_n <= MAXCHAIN && (in_other == 0 || in_other == 1) && 0 <= in_q && in_q < MAXCHAIN && 0 <= in_mode && in_mode <= 2);
    m.n = in_n;
    for (int i = 0; i < MAXCHAIN; i++) { m.lens[i] = 1; m.keys[i][0] = (char)('a' + i); m.vals[i] = (void *)in_vals[i]; }
    hash_table_t *ht = calloc(1, sizeof *ht);
    hash_entry_t *slots = calloc(2, sizeof *slots);
    SSW_ASSUME(ht != NULL && slots != NULL);
    static const char okey[1] = { 'z' };
    build(ht, slots, &m, 0, in_other, okey, 1, (void *)77);
    hash_entry_t *target = NULL; /* the witness entry */
    { hash_entry_t *e = &slots[0]; for (int i = 0; i < MAXCHAIN; i++) if (i < m.n) { if (i == in_q) target = e; e = e->next; } }
    int visits = 0, total = 0;
    if (in_mode == 0) {
        hash_iter_t *it;
        int guard = 0;
        for (it = hash_table_iter(ht); it != NULL && guard <= MAXCHAIN + 2; it = hash_table_iter_next(it)) {
            if (it->ent == target) visits++;
            total++; guard++;
        }
        SSW_ASSERT(it == NULL, "iteration terminates after visiting the live entries");
        SSW_ASSERT(total == ht->inuse, "iteration visits as many entries as are in use");
        SSW_ASSERT(target == NULL || visits == 1, "iteration visits every live entry exactly once");
    } else if (in_mode == 1) {
        int32 count = -1;
        glist_t g = hash_table_tolist(ht, &count), gn;
        int guard = 0;
        for (gn = g; gn != NULL && guard <= MAXCHAIN + 2; gn = gn->next) { if (gn->data.ptr == (void *)target) visits++; total++; guard++; }
        SSW_ASSERT(gn == NULL && total == ht->inuse && count == ht->inuse, "list export has one node per live entry");
        SSW_ASSERT(target == NULL || visits == 1, "list export contains every live entry exactly once");
        while (g) { gn = g->next; free(g); g = gn; }
    } else {
        hash_table_empty(ht);
        SSW_ASSERT(ht->inuse == 0 && slots[0].key == NULL && slots[0].next == NULL && slots[1].key == NULL, "empty clears every bucket");
        SSW_ASSERT(lookup(ht, 0, m.keys[in_q], 1) == NULL, "no key is found after empty");
    }
    hash_table_free(ht);
    VERIF_CANARY();
}

/* Short histories through the real public API (real key2hash, string keys): 3 operations from the empty table,
 * then every lookup agrees with a reference map. */
#ifndef NOPS
#define NOPS 3
#endif
void r_hash_history(void)
{
    IN(int, in_nocase);
    IN_ARR(int, in_op, NOPS); IN_ARR(char, in_c, NOPS); IN_ARR(long, in_v, NOPS); IN(char, in_probe);
    SSW_ASSUME(in_nocase == 0 || in_nocase == 1);
    hash_table_t *ht = calloc(1, sizeof *ht);
    SSW_ASSUME(ht != NULL);
    ht->size = 2; ht->nocase = in_nocase; ht->inuse = 0;
    ht->table = calloc(2, sizeof(hash_entry_t));
    SSW_ASSUME(ht->table != NULL);
    char keys[NOPS][2];
    /* reference map over one-character keys */
    int present[NOPS]; char mk[NOPS]; long mv[NOPS]; int cnt = 0;
    for (int i = 0; i < NOPS; i++) present[i] = 0;
    for (int i = 0; i < NOPS; i++) {
        SSW_ASSUME(in_op[i] >= 0 && in_op[i] <= 2 && in_c[i] != 0);
        keys[i][0] = in_c[i]; keys[i][1] = 0;
        int f = -1;
        for (int j = 0; j < NOPS; j++) if (present[j] && SPEC_BYTE_EQ(mk[j], in_c[i], in_nocase)) f = j;
        if (in_op[i] == 0) { /* enter */
            void *r = hash_table_enter(ht, keys[i], (void *)in_v[i]);
            if (f >= 0) SSW_ASSERT(r == (void *)mv[f], "enter returns the existing value");
            else { SSW_ASSERT(r == (void *)in_v[i], "enter returns the new value"); present[i] = 1; mk[i] = in_c[i]; mv[i] = in_v[i]; cnt++; }
        } else if (in_op[i] == 1) { /* replace */
            void *r = hash_table_replace(ht, keys[i], (void *)in_v[i]);
            if (f >= 0) { SSW_ASSERT(r == (void *)mv[f], "replace returns the old value"); mv[f] = in_v[i]; }
            else { SSW_ASSERT(r == (void *)in_v[i], "replace of an absent key enters it"); present[i] = 1; mk[i] = in_c[i]; mv[i] = in_v[i]; cnt++; }
        } else { /* delete */
            void *r = hash_table_delete(ht, keys[i]);
            if (f >= 0) { SSW_ASSERT(r == (void *)mv[f], "delete returns the stored value"); present[f] = 0; cnt--; }
            else SSW_ASSERT(r == NULL, "delete of an absent key returns NULL");
        }
        SSW_ASSERT(ht->inuse == cnt, "entry count equals the number of distinct live keys");
    }
    SSW_ASSUME(in_probe != 0);
    char pk[2] = { in_probe, 0 };
    void *val = NULL;
    int f = -1;
    for (int j = 0; j < NOPS; j++) if (present[j] && SPEC_BYTE_EQ(mk[j], in_probe, in_nocase)) f = j;
    int32 rc = hash_table_lookup(ht, pk, &val);
    SSW_ASSERT((rc == 0) == (f >= 0), "lookup succeeds exactly for live keys");
    SSW_ASSERT(rc != 0 || val == (void *)mv[f], "lookup returns the value most recently stored for an equal key");
    hash_table_free(ht);
    VERIF_CANARY();
}
