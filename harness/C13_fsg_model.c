/* C13: harnesses for src/fsg_model.c */
#include "ssw_ghost.h"
#include "fsg_model.ghost.h"
#include "fsg_model.c"
#include "fsg_model.contracts.h"
#define SSW_NO_ERR_STUBS
#include "ssw_stubs.h"
#ifdef SSW_CBMC
void h_fsg_model_tag_trans_add(void) { fsg_model_t *f; int32 a, b, c, d; fsg_model_tag_trans_add(f, a, b, c, d); VERIF_CANARY(); }
void h_fsg_model_null_trans_add(void) { fsg_model_t *f; int32 a, b, c; fsg_model_null_trans_add(f, a, b, c); VERIF_CANARY(); }
#endif
