/* C10 (bounded): dict_read_s3file on every dictionary text of <= DLEN symbolic bytes, through the real s3file
 * tokenisers.  dict_add_word and the phone lookup are stubs.  Obligations: every read inside the text, every loop
 * terminates (unwinding assertions ARE obligations here), exit()/abort() unreachable, a result is returned. */
#include "ssw_ghost.h"
#define hash_table_lookup_int32 ssw_ht_lookup_int32
#define hash_table_enter ssw_ht_enter
#include "dict.c"
#undef hash_table_lookup_int32
#undef hash_table_enter
#include "s3file.c"
#define SSW_NO_ALLOC_STUBS
#include "ssw_stubs.h"
#ifdef SSW_CBMC
void *__ckd_calloc__(size_t n, size_t sz, const char *file, int line) { (void)file; (void)line; return calloc(n, sz); }
void *__ckd_malloc__(size_t sz, const char *file, int line) { (void)file; (void)line; return malloc(sz); }
char *__ckd_salloc__(const char *orig, const char *file, int line) { (void)file; (void)line; size_t n = strlen(orig) + 1; char *p = malloc(n); memcpy(p, orig, n); return p; }
void ckd_free(void *ptr) { free(ptr); }
/* library policy: a failed (re)allocation terminates the process -- realloc(p, 0) is such a failure on glibc */
void *__ckd_realloc__(void *p, size_t sz, const char *file, int line)
{ (void)file; (void)line; if (sz == 0) { ssw_exit(1); }
  /* the word-table growth path of dict_add_word is excluded by max_words; cut it (a 130 kB realloc model exhausts memory) */
  if (sz > 1000) { __CPROVER_assert(0, "table growth is not reached in this harness"); __CPROVER_assume(0); }
  return realloc(p, sz); }
#endif
#ifndef DLEN
#define DLEN 6
#endif
/* word hash table as a map stub: nothing is ever a duplicate, no base words */
int32 ssw_ht_lookup_int32(hash_table_t *h, const char *key, int32 *val) { (void)h; (void)key; (void)val; return -1; }
void *ssw_ht_enter(hash_table_t *h, const char *key, void *val) { (void)h; (void)key; return val; }
int bin_mdef_ciphone_id(bin_mdef_t *m, const char *ciphone) { (void)m; return (ciphone[0] >= 'A' && ciphone[0] <= 'Z') ? ciphone[0] - 'A' : -1; }
int bin_mdef_ciphone_id_nocase(bin_mdef_t *m, const char *ciphone) { return bin_mdef_ciphone_id(m, ciphone); }
int isspace_c(char ch) { return ch == ' ' || ch == '\t' || ch == '\n' || ch == '\r' || ch == '\v' || ch == '\f'; }

void r_dict_read(void)
{
    IN_ARR(char, in_text, DLEN); IN(int, in_len);
    SSW_ASSUME(0 <= in_len && in_len <= DLEN);
    char *buf = malloc((size_t)in_len + 1);   /* exact-size block */
    SSW_ASSUME(buf != NULL);
    for (int i = 0; i < DLEN; i++) if (i < in_len) buf[i] = in_text[i];
    s3file_t *s = s3file_init(buf, (size_t)in_len);
    static dict_t d; static bin_mdef_t *mdef_dummy;
    static dictword_t words[DLEN + 2]; static hash_table_t ht;
    d.mdef = (bin_mdef_t *)&mdef_dummy; d.nocase = 0; d.n_word = 0; d.max_words = DLEN + 2; d.word = words; d.ht = &ht;
    int32 r = dict_read_s3file(&d, s);
    SSW_ASSERT(r == 0 || r == -1, "reading a dictionary text terminates and reports success or failure");
    VERIF_CANARY();
}
