/* C02/C18: harnesses for src/hmm.c */
#include "ssw_ghost.h"
#include "hmm.c"
#include "hmm.contracts.h"
#include "ssw_stubs.h"

#ifdef SSW_CBMC
void h_hmm_vit_eval_3st_lr(void) { hmm_t *h; hmm_vit_eval_3st_lr(h); VERIF_CANARY(); }
void h_hmm_vit_eval(void) { hmm_t *h; hmm_vit_eval(h); VERIF_CANARY(); }
void h_hmm_clear(void) { hmm_t *h; hmm_clear(h); VERIF_CANARY(); }
void h_hmm_normalize(void) { hmm_t *h; int32 b; hmm_normalize(h, b); VERIF_CANARY(); }
void h_hmm_enter(void) { hmm_t *h; int32 sc, hi; int fr; hmm_enter(h, sc, hi, fr); VERIF_CANARY(); }
void h_hmm_vit_eval_3st_lr_mpx(void) { hmm_t *h; hmm_vit_eval_3st_lr_mpx(h); VERIF_CANARY(); }
#endif

/* Constructive harness / native replay driver for the 3-state step: same specification macros as the contract. */
void r_hmm_3st(void)
{
    IN_ARR(int, in_score, 3); IN_ARR(int, in_hist, 3); IN_ARR(int, in_sen, 3); IN_ARR(unsigned, in_tp, 12);
    IN(int, in_out_score); IN(int, in_out_hist);
    static hmm_context_t ctx; static hmm_t hmm;
    static int16 senscore[3]; static uint8 tpm[12]; static uint8 *tprow[1]; static uint8 **tpmat[1];
    for (int i = 0; i < 12; i++) { SSW_ASSUME(in_tp[i] <= 255); tpm[i] = (uint8)in_tp[i]; }
    for (int i = 0; i < 3; i++) {
        SSW_ASSUME(in_sen[i] >= 0 && in_sen[i] <= 32767);
        senscore[i] = (int16)in_sen[i];
        hmm.senid[i] = (uint16)i; hmm.score[i] = in_score[i]; hmm.history[i] = in_hist[i];
    }
    tprow[0] = tpm; tpmat[0] = tprow;
    ctx.n_emit_state = 3; ctx.tp = tpmat; ctx.senscore = senscore;
    hmm.ctx = &ctx; hmm.tmatid = 0; hmm.mpx = 0; hmm.n_emit_state = 3;
    hmm.out_score = in_out_score; hmm.out_history = in_out_hist;
    SSW_ASSUME(hmm.score[0] >= HW && hmm.score[0] <= 0 && H_SCORE_OK(hmm.score[1]) && H_SCORE_OK(hmm.score[2]));
    SSW_ASSUME(hmm.score[2] == HW || hmm.score[1] != HW);
    SSW_ASSUME(hmm.score[1] != HW || hmm.out_score == HW);
    int s0 = in_score[0] - in_sen[0], s1 = in_score[1] - in_sen[1], s2 = in_score[2] - in_sen[2];
#define T(i, j) ((int)tpm[(i)*4 + (j)])
    int32 r = hmm_vit_eval_3st_lr(&hmm);
    SSW_ASSERT(hmm.score[0] == P3_NEW0(s0, T(0, 0)), "state 0 is the clamped max-plus step");
    SSW_ASSERT(hmm.score[1] == P3_NEW1(s0, s1, T(0, 1), T(1, 1)), "state 1 is the clamped max-plus step");
    SSW_ASSERT(hmm.score[2] == P3_NEW2(s0, s1, s2, T(0, 2), T(1, 2), T(2, 2)), "state 2 is the clamped max-plus step over its legal arcs");
    if (in_score[1] != HW) {
        SSW_ASSERT(hmm.out_score == P3_OUT(s1, s2, T(1, 3), T(2, 3)), "exit state is the clamped max-plus step");
        SSW_ASSERT(P3_HISTOUT(hmm.out_history, in_hist[1], in_hist[2], s1, s2, T(1, 3), T(2, 3)), "exit back-pointer follows an arg-max predecessor");
    }
    SSW_ASSERT(r == hmm.bestscore && r == HMAX2(HMAX2(hmm.score[0], hmm.score[1]), HMAX2(hmm.score[2], hmm.out_score)), "best score");
    SSW_ASSERT(P3_HIST1(hmm.history[1], in_hist[0], in_hist[1], s0, s1, T(0, 1), T(1, 1)), "state 1 back-pointer follows an arg-max predecessor");
    SSW_ASSERT(P3_HIST2(hmm.history[2], in_hist[0], in_hist[1], in_hist[2], s0, s1, s2, T(0, 2), T(1, 2), T(2, 2)), "state 2 back-pointer follows an arg-max predecessor");
    VERIF_CANARY();
}
