/* C02 (bounded): the domination rule of fsg_history_entry_add on one (state, left-context) list of <= 2 entries.
 * "With pruning disabled nothing better is lost": for every right-context bit, the best score offered for that bit by
 * the old entries and the new one is still offered by an entry of the list afterwards. */
#include "ssw_ghost.h"
#include "fsg_history.c"
#include "ssw_stubs.h"

static int has_bit(const fsg_pnode_ctxt_t *c, int k) { return (c->bv[k / 32] >> (k % 32)) & 1u; }

void r_history_entry_add(void)
{
    IN(int, in_n); IN_ARR(int, in_score, 2); IN_ARR(unsigned, in_rc0, 4); IN_ARR(unsigned, in_rc1, 4); IN_ARR(unsigned, in_rcn, 4); IN(int, in_newscore); IN(int, in_k);
    static fsg_history_t h; static glist_t row[1]; static glist_t *rows[1]; static fsg_link_t link;
    fsg_pnode_ctxt_t rc0, rc1, rcn;
    SSW_ASSUME(0 <= in_n && in_n <= 2 && 0 <= in_k && in_k < 128);
    for (int i = 0; i < 4; i++) { rc0.bv[i] = in_rc0[i]; rc1.bv[i] = in_rc1[i]; rcn.bv[i] = in_rcn[i]; }
    SSW_ASSUME(-1000 <= in_score[1] && in_score[1] <= in_score[0] && in_score[0] <= 0 && -1000 <= in_newscore && in_newscore <= 0);
    /* list invariant: sorted by score (best first), right-context sets non-empty and pairwise disjoint */
    SSW_ASSUME((rc0.bv[0] | rc0.bv[1] | rc0.bv[2] | rc0.bv[3]) != 0 && (rc1.bv[0] | rc1.bv[1] | rc1.bv[2] | rc1.bv[3]) != 0 && (rcn.bv[0] | rcn.bv[1] | rcn.bv[2] | rcn.bv[3]) != 0);
    for (int i = 0; i < 4; i++) SSW_ASSUME((rc0.bv[i] & rc1.bv[i]) == 0);
    row[0] = NULL; rows[0] = row; h.frame_entries = rows;
    fsg_hist_entry_t *e[2] = { NULL, NULL };
    for (int i = 1; i >= 0; i--)
        if (i < in_n) {
            e[i] = calloc(1, sizeof(fsg_hist_entry_t)); SSW_ASSUME(e[i] != NULL);
            e[i]->score = in_score[i]; e[i]->rc = i == 0 ? rc0 : rc1; e[i]->frame = 5; e[i]->pred = 7 + i; e[i]->lc = 1;
            row[0] = glist_add_ptr(row[0], e[i]);
        }
    /* best score on offer for witness bit k before the call */
    int best = -100000;
    if (in_n > 0 && has_bit(&rc0, in_k) && in_score[0] > best) best = in_score[0];
    if (in_n > 1 && has_bit(&rc1, in_k) && in_score[1] > best) best = in_score[1];
    if (has_bit(&rcn, in_k) && in_newscore > best) best = in_newscore;
    link.to_state = 0;
    fsg_history_entry_add(&h, &link, 5, in_newscore, 3, 0, rcn);
    /* afterwards */
    int after = -100000, prev = 1, cnt = 0, nnew = 0;
    for (gnode_t *gn = row[0]; gn && cnt < 4; gn = gnode_next(gn), cnt++) {
        fsg_hist_entry_t *x = gnode_ptr(gn);
        SSW_ASSERT(x->score <= prev, "the list stays sorted by score, best first");
        prev = x->score;
        SSW_ASSERT((x->rc.bv[0] | x->rc.bv[1] | x->rc.bv[2] | x->rc.bv[3]) != 0, "no entry with an empty right-context set is kept");
        if (has_bit(&x->rc, in_k) && x->score > after) after = x->score;
        /* what the word-arc / null-arc contracts of C01 hand over is what is stored: the new entry carries exactly the given
         * arc, frame, score, predecessor and last phone; entries already there keep theirs (only their context set shrinks) */
        if (x != e[0] && x != e[1]) {
            nnew++;
            SSW_ASSERT(x->fsglink == &link && x->frame == 5 && x->score == in_newscore && x->pred == 3 && x->lc == 0, "the new entry stores the arc, frame, score, predecessor and last phone it was given");
        } else
            SSW_ASSERT(x->fsglink == NULL && x->frame == 5 && x->pred == (x == e[0] ? 7 : 8) && x->lc == 1 && x->score == (x == e[0] ? in_score[0] : in_score[1]), "an existing entry keeps its arc, frame, score and predecessor");
    }
    SSW_ASSERT(nnew <= 1, "at most one new entry");
    SSW_ASSERT(cnt <= in_n + 1, "at most one entry is added");
    SSW_ASSERT(after == best, "for every right context the best score on offer is kept (an entry is dropped only if dominated)");
    VERIF_CANARY();
}
