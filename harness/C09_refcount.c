/* C09: reference counting of alignment_t over its dict2pid (src/ps_alignment.c) */
#include "ssw_ghost.h"
#include "ps_alignment.c"
#include "ssw_stubs.h"
#ifdef SSW_CBMC
int verif_d2p_retains, verif_d2p_frees;
/* the callee side (dict2pid.c) counts references; here every call is counted by a ghost */
dict2pid_t *dict2pid_retain(dict2pid_t *d2p)
__CPROVER_requires(1) __CPROVER_assigns(verif_d2p_retains)
__CPROVER_ensures(__CPROVER_return_value == d2p && verif_d2p_retains == __CPROVER_old(verif_d2p_retains) + 1);
int dict2pid_free(dict2pid_t *d2p)
__CPROVER_requires(1) __CPROVER_assigns(verif_d2p_frees)
__CPROVER_ensures(verif_d2p_frees == __CPROVER_old(verif_d2p_frees) + 1);

/* a new alignment holds exactly one counted reference on the dict2pid it points to */
alignment_t *alignment_init(dict2pid_t *d2p)
__CPROVER_requires(verif_d2p_retains >= 0 && verif_d2p_retains < 1000)
__CPROVER_assigns(verif_d2p_retains)
__CPROVER_ensures(__CPROVER_return_value != NULL && __CPROVER_return_value->d2p == d2p && __CPROVER_return_value->refcount == 1)
__CPROVER_ensures(verif_d2p_retains == __CPROVER_old(verif_d2p_retains) + 1)
;
/* ... and gives it back exactly when the last reference to the alignment is dropped */
int alignment_free(alignment_t *al)
__CPROVER_requires(__CPROVER_is_fresh(al, sizeof(*al)) && al->refcount >= 1 && al->refcount <= 1000 && verif_d2p_frees >= 0 && verif_d2p_frees < 1000)
__CPROVER_requires(al->word.seq == NULL && al->sseq.seq == NULL && al->state.seq == NULL)
__CPROVER_assigns(al->refcount, verif_d2p_frees)
__CPROVER_frees(al)
__CPROVER_ensures(IMP(__CPROVER_old(al->refcount) > 1, __CPROVER_return_value == __CPROVER_old(al->refcount) - 1 && verif_d2p_frees == __CPROVER_old(verif_d2p_frees)))
__CPROVER_ensures(IMP(__CPROVER_old(al->refcount) == 1, __CPROVER_return_value == 0 && verif_d2p_frees == __CPROVER_old(verif_d2p_frees) + 1))
;
/* keeps the replaced callees in the goto model even if the code under test stops calling them (never called itself) */
void ssw_keep_refs(void) { dict2pid_retain(NULL); dict2pid_free(NULL); }
void h_alignment_init(void) { dict2pid_t *d; alignment_init(d); VERIF_CANARY(); }
void h_alignment_free(void) { alignment_t *a; alignment_free(a); VERIF_CANARY(); }
#endif
