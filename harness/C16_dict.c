/* C16: harnesses for src/dict.c */
#include "ssw_ghost.h"
#include "dict.c"
#include "dict.contracts.h"
#include "mem.contracts.h"
#define SSW_NO_ALLOC_STUBS
#include "ssw_stubs.h"
#ifdef SSW_CBMC
void *__ckd_malloc__(size_t size, const char *file, int line) { (void)file; (void)line; return malloc(size); }
void *__ckd_calloc__(size_t n, size_t sz, const char *file, int line) { (void)file; (void)line; return calloc(n, sz); }
/* growth path is excluded by the precondition n_word < max_words; CBMC's realloc model of a 130 kB block exhausts memory
 * even on the infeasible path, so the stub does not copy (growth keeping contents is NOT covered) */
void *__ckd_realloc__(void *p, size_t sz, const char *file, int line) { (void)file; (void)line; (void)p; return malloc(sz); }
void ckd_free(void *ptr) { free(ptr); }
void h_dict_add_word(void) { dict_t *d; const char *w; s3cipid_t const *p; int32 np; dict_add_word(d, w, p, np); VERIF_CANARY(); }
#endif
