/* C19: harnesses for src/logmath.c.  The verified text is the working-tree file (scratch copy, injected). */
#include "ssw_ghost.h"
#include "logmath.c"
#include "logmath.contracts.h"

#ifdef SSW_CBMC
/* all int pairs, all table widths/sizes/shifts; table contents arbitrary subject to the invariant at |x-y| */
void h_logmath_add(void)
{
    logmath_t *l; int x, y;
    logmath_add(l, x, y);
    VERIF_CANARY();
}
void h_logmath_get_zero(void) { logmath_t *l; logmath_get_zero(l); VERIF_CANARY(); }
void h_logmath_log(void) { logmath_t *l; float64 p; logmath_log(l, p); VERIF_CANARY(); }
#endif

/* Constructive harness: symmetry (two calls on the same object) -- also the native replay driver for the
 * logmath_add postconditions (same POST_ macros as the contract). */
void r_logmath_add(void)
{
    IN(int, in_x); IN(int, in_y); IN(unsigned, in_width); IN(unsigned, in_size); IN(unsigned, in_shift);
    IN(unsigned, in_entry); IN(int, in_T0);
    logmath_t *l = calloc(1, sizeof *l);
    SSW_ASSUME(l != NULL);
    l->t.width = (uint8)in_width; l->t.shift = (int8)in_shift; l->t.table_size = in_size;
    SSW_ASSUME(in_shift <= 8);
    l->zero = (int)0x80000000 >> (in_shift + 2);
    SSW_ASSUME(WF_LOGMATH(l));
#ifdef SSW_CBMC
    SSW_ASSUME(in_size <= 70000); /* object size limit of the constructive harness only; the contract group has none */
#endif
    l->t.table = malloc((size_t)in_size * l->t.width);
    SSW_ASSUME(l->t.table != NULL);
    verif_T0 = in_T0;
    SSW_ASSUME(verif_T0 >= 0 && verif_T0 <= 100000000);
    SSW_ASSUME(LM_DOMAIN(l, in_x) && LM_DOMAIN(l, in_y));
    /* the one table entry the call can read (index |x-y|, whatever the log-zero tests decide) is the input in_entry */
    long long dd = (long long)in_x - (long long)in_y;
    if (dd < 0) dd = -dd;
#ifdef SSW_REPLAY
    memset(l->t.table, 0, (size_t)in_size * l->t.width);
#endif
    if (dd < (long long)in_size) {
#ifdef SSW_REPLAY
        if (l->t.width == 1) ((uint8 *)l->t.table)[dd] = (uint8)in_entry;
        else if (l->t.width == 2) ((uint16 *)l->t.table)[dd] = (uint16)in_entry;
        else ((uint32 *)l->t.table)[dd] = in_entry;
#else
        SSW_ASSUME(LM_TBL(&l->t, dd) == (l->t.width == 1 ? (uint8)in_entry : l->t.width == 2 ? (uint16)in_entry : in_entry));
#endif
    }
    SSW_ASSUME(LM_TBL_INV_AT(l, in_x, in_y));
    int r1 = logmath_add(l, in_x, in_y);
    int r2 = logmath_add(l, in_y, in_x);
    /* both arguments at or below log-zero: either one is returned; both results denote probability zero */
    SSW_ASSERT(r1 == r2 || (in_x <= l->zero && in_y <= l->zero && r1 <= l->zero && r2 <= l->zero),
               "logmath_add symmetric: add(x,y) == add(y,x) (up to the representation of log-zero)");
    SSW_ASSERT(POST_ADD_ZERO_X(l, in_x, in_y, r1), "log-zero is the identity (x)");
    SSW_ASSERT(POST_ADD_ZERO_Y(l, in_x, in_y, r1), "log-zero is the identity (y)");
    SSW_ASSERT(POST_ADD_BOUNDS(l, in_x, in_y, r1), "max(x,y) <= add(x,y) <= max(x,y) + T0");
    SSW_ASSERT(POST_ADD_FAR(l, in_x, in_y, r1), "beyond the table the larger argument is returned");
    SSW_ASSERT(POST_ADD_EXACT(l, in_x, in_y, r1), "result is max + table[|x-y|]");
    VERIF_CANARY();
}
