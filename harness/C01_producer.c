/* C01 producer side: every history entry added by null-arc propagation continues its predecessor's grammar path */
#include "ssw_ghost.h"
#include "fsg_hist_prod.ghost.h"
#include "fsg_search.c"
#include "ssw_stubs.h"
#ifdef SSW_CBMC
static void fsg_search_null_prop(fsg_search_t *fsgs)
__CPROVER_requires(__CPROVER_is_fresh(fsgs, sizeof(*fsgs)))
__CPROVER_requires(__CPROVER_is_fresh(verif_fsg, sizeof(*verif_fsg)) && __CPROVER_pointer_equals(fsgs->fsg, verif_fsg))
__CPROVER_requires(fsgs->history == verif_h)
__CPROVER_requires(verif_fsg->n_state >= 1 && verif_fsg->start_state >= 0 && verif_fsg->start_state < verif_fsg->n_state)
__CPROVER_requires(verif_hist_n >= 0 && 0 <= fsgs->bpidx_start && fsgs->bpidx_start <= verif_hist_n)
__CPROVER_requires(__CPROVER_pointer_equals(verif_cell.fsglink, &verif_lcell) && verif_cell0.fsglink == NULL && verif_arc_live == 0)
__CPROVER_requires(fsgs->bestscore <= 0 && fsgs->bestscore >= WORST_SCORE && fsgs->wbeam <= 0 && fsgs->wbeam >= WORST_SCORE)
__CPROVER_assigns(verif_cell, verif_cell0, verif_lcell, verif_cell_id, verif_acell, verif_arc_state, verif_arc_live, verif_added)
__CPROVER_ensures(verif_arc_live == 0)
;
void h_fsg_search_null_prop(void) { fsg_search_t *f; fsg_search_null_prop(f); VERIF_CANARY(); }
#endif
