/* C17/C10: harnesses for src/s3file.c */
#include "ssw_ghost.h"
#include "s3file.c"
#include "s3file.contracts.h"
#include "mem.contracts.h"
#define SSW_NO_ALLOC_STUBS
#include "ssw_stubs.h"
#ifdef SSW_CBMC
/* allocator stubs with the "never allocate more than the file could fill" obligation (ghost verif_alloc_limit) */
void *__ckd_calloc__(size_t n_elem, size_t elem_size, const char *file, int line)
{
    (void)file; (void)line;
    /* array data: at most one element per file byte; bookkeeping objects (elem_size > 8): at most one per file byte + 1 */
    __CPROVER_assert(n_elem <= verif_alloc_limit + 1 && elem_size <= 128, "allocation size is bounded by the file size");
    /* beyond the bound the path is cut (the obligation above has already failed there): keeps symbolic-size objects small */
    __CPROVER_assume(n_elem <= verif_alloc_limit + 1 && elem_size <= 128);
    return malloc(n_elem * elem_size);   /* content of the block is irrelevant to the index-level contracts */
}
void *__ckd_malloc__(size_t size, const char *file, int line) { (void)file; (void)line; return malloc(size); }
void ckd_free(void *ptr) { free(ptr); }
/* row-pointer builders: the data block must hold d1*d2(*d3) elements -- otherwise the rows point outside it */
void *__ckd_alloc_2d_ptr(size_t d1, size_t d2, void *store, size_t elem_size, const char *file, int line)
{
    (void)file; (void)line;
    __CPROVER_assert(d1 * d2 * elem_size <= __CPROVER_OBJECT_SIZE(store), "2-d row pointers stay inside the data block");
    return malloc(sizeof(void *));
}
void *__ckd_alloc_3d_ptr(size_t d1, size_t d2, size_t d3, void *store, size_t elem_size, const char *file, int line)
{
    (void)file; (void)line;
    __CPROVER_assert(d1 * d2 * d3 * elem_size <= __CPROVER_OBJECT_SIZE(store), "3-d row pointers stay inside the data block");
    return malloc(sizeof(void *));
}
int isspace_c(char ch) { return ch == ' ' || ch == '\t' || ch == '\n' || ch == '\r' || ch == '\v' || ch == '\f'; }
void h_s3file_nextline(void) { s3file_t *s; s3file_nextline(s); VERIF_CANARY(); }
void h_s3file_nextword(void) { s3file_t *s; const char **p; s3file_nextword(s, p); VERIF_CANARY(); }
#ifndef S3_ELSZ
#define S3_ELSZ 4
#endif
/* the element size is a compile-time constant per run so that symex folds the multiplications */
void h_s3file_get(void) { void *b; size_t n; s3file_t *s; s3file_get(b, S3_ELSZ, n, s); VERIF_CANARY(); }
void h_s3file_get_1d(void) { void **b; uint32 *n; s3file_t *s; s3file_get_1d(b, S3_ELSZ, n, s); VERIF_CANARY(); }
void h_s3file_get_2d(void) { void ***a; uint32 *d1, *d2; s3file_t *s; s3file_get_2d(a, S3_ELSZ, d1, d2, s); VERIF_CANARY(); }
void h_s3file_get_3d(void) { void ****a; uint32 *d1, *d2, *d3; s3file_t *s; s3file_get_3d(a, S3_ELSZ, d1, d2, d3, s); VERIF_CANARY(); }
void h_chksum_accum_bounded(void) { const void *b; size_t e, n; uint32 s; chksum_accum(b, e, n, s); VERIF_CANARY(); }
void h_s3file_verify_chksum(void) { s3file_t *s; s3file_verify_chksum(s); VERIF_CANARY(); }
#endif

#ifndef S3_GET_ENFORCE
/* Constructive bounded harness: a whole file of <= FLEN symbolic bytes read through the REAL s3file_get / get_1d /
 * get_2d / get_3d / verify_chksum (byte-loop memcpy, real swap/checksum loops).  Also the native replay driver. */
#ifndef FLEN
#define FLEN 20
#endif
void r_s3file_arrays(void)
{
    IN_ARR(unsigned char, in_file, FLEN); IN(int, in_len); IN(int, in_mode); IN(int, in_swap); IN(int, in_chk);
#ifdef MODE
    SSW_ASSUME(in_mode == MODE);
#endif
    SSW_ASSUME(0 <= in_len && in_len <= FLEN && 0 <= in_mode && in_mode <= 3 && (in_swap == 0 || in_swap == 1) && (in_chk == 0 || in_chk == 1));
    unsigned char *buf = malloc((size_t)in_len + 1);   /* exact-size block: any over-read is an obligation */
    SSW_ASSUME(buf != NULL);
    for (int i = 0; i < FLEN; i++) if (i < in_len) buf[i] = in_file[i];
#ifdef SSW_CBMC
    verif_alloc_limit = (size_t)in_len;
#endif
    s3file_t *s = s3file_init(buf, (size_t)in_len);
    s->do_swap = in_swap; s->do_chksum = in_chk;
    long r; uint32 n = 0, d1 = 0, d2 = 0, d3 = 0; void *one = NULL; void **two = NULL; void ***three = NULL;
    if (in_mode == 0) {
        r = s3file_get_1d(&one, S3_ELSZ, &n, s);
        SSW_ASSERT(r == -1 || (r == (long)n && n > 0 && (size_t)n * S3_ELSZ + 4 <= (size_t)in_len), "a 1-d array is returned only if the file holds all of it");
    } else if (in_mode == 1) {
        r = s3file_get_2d(&two, S3_ELSZ, &d1, &d2, s);
        SSW_ASSERT(r == -1 || (r > 0 && (size_t)d1 * d2 == (size_t)r && (size_t)r * S3_ELSZ + 12 <= (size_t)in_len), "a 2-d array is returned only if its dimensions match its data");
    } else if (in_mode == 2) {
        r = s3file_get_3d(&three, S3_ELSZ, &d1, &d2, &d3, s);
        SSW_ASSERT(r == -1 || (r > 0 && (size_t)d1 * d2 * d3 == (size_t)r && (size_t)r * S3_ELSZ + 16 <= (size_t)in_len), "a 3-d array is returned only if its dimensions match its data");
    } else {
        int h = s3file_parse_header(s, NULL);
        SSW_ASSERT(h == 0 || h == -1, "header parsing reports success or failure");
    }
    SSW_ASSERT(s->ptr <= s->end && s->ptr >= (const char *)buf, "the read position stays inside the file");
    VERIF_CANARY();
}
#endif
