/* C17/C10: harnesses for src/s3file.c */
#include "ssw_ghost.h"
#include "s3file.c"
#include "s3file.contracts.h"
#include "mem.contracts.h"
#define SSW_NO_ALLOC_STUBS
#include "ssw_stubs.h"
#ifdef SSW_CBMC
/* allocator stubs with the "never allocate more than the file could fill" obligation (ghost verif_alloc_limit) */
void *__ckd_calloc__(size_t n_elem, size_t elem_size, const char *file, int line)
{
    (void)file; (void)line;
    __CPROVER_assert(n_elem <= verif_alloc_limit && elem_size <= 8 && n_elem * elem_size <= 8 * verif_alloc_limit, "allocation size is bounded by the file size");
    return calloc(n_elem, elem_size);
}
void *__ckd_malloc__(size_t size, const char *file, int line) { (void)file; (void)line; return malloc(size); }
void ckd_free(void *ptr) { free(ptr); }
/* row-pointer builders: the data block must hold d1*d2(*d3) elements -- otherwise the rows point outside it */
void *__ckd_alloc_2d_ptr(size_t d1, size_t d2, void *store, size_t elem_size, const char *file, int line)
{
    (void)file; (void)line;
    __CPROVER_assert(d1 * d2 * elem_size <= __CPROVER_OBJECT_SIZE(store), "2-d row pointers stay inside the data block");
    return malloc(sizeof(void *));
}
void *__ckd_alloc_3d_ptr(size_t d1, size_t d2, size_t d3, void *store, size_t elem_size, const char *file, int line)
{
    (void)file; (void)line;
    __CPROVER_assert(d1 * d2 * d3 * elem_size <= __CPROVER_OBJECT_SIZE(store), "3-d row pointers stay inside the data block");
    return malloc(sizeof(void *));
}
int isspace_c(char ch) { return ch == ' ' || ch == '\t' || ch == '\n' || ch == '\r' || ch == '\v' || ch == '\f'; }
void h_s3file_nextline(void) { s3file_t *s; s3file_nextline(s); VERIF_CANARY(); }
void h_s3file_nextword(void) { s3file_t *s; const char **p; s3file_nextword(s, p); VERIF_CANARY(); }
#ifndef S3_ELSZ
#define S3_ELSZ 4
#endif
/* the element size is a compile-time constant per run so that symex folds the multiplications */
void h_s3file_get(void) { void *b; size_t n; s3file_t *s; s3file_get(b, S3_ELSZ, n, s); VERIF_CANARY(); }
void h_s3file_get_1d(void) { void **b; uint32 *n; s3file_t *s; s3file_get_1d(b, S3_ELSZ, n, s); VERIF_CANARY(); }
void h_s3file_get_2d(void) { void ***a; uint32 *d1, *d2; s3file_t *s; s3file_get_2d(a, S3_ELSZ, d1, d2, s); VERIF_CANARY(); }
void h_s3file_get_3d(void) { void ****a; uint32 *d1, *d2, *d3; s3file_t *s; s3file_get_3d(a, S3_ELSZ, d1, d2, d3, s); VERIF_CANARY(); }
void h_chksum_accum_bounded(void) { const void *b; size_t e, n; uint32 s; chksum_accum(b, e, n, s); VERIF_CANARY(); }
void h_s3file_verify_chksum(void) { s3file_t *s; s3file_verify_chksum(s); VERIF_CANARY(); }
#endif
