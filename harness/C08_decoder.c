#include "ssw_ghost.h"
#include <stdio.h>
#define sprintf(...) 0
#include "decoder.c"
#undef sprintf
/* stub search-module methods reached through the v-table (function pointers need candidates with bodies) */
int ssw_search_start(search_module_t *s) { (void)s; return 0; }
void ssw_search_free(search_module_t *s) { (void)s; }
/* address-taken so that function-pointer removal has candidates */
int (*ssw_keep_start)(search_module_t *) = ssw_search_start;
void (*ssw_keep_free)(search_module_t *) = ssw_search_free;
#define VERIF_TU_DECODER
#include "reset.contracts.h"
#include "ssw_stubs.h"
#ifdef SSW_CBMC
void h_decoder_start_utt(void) { decoder_t *d; decoder_start_utt(d); VERIF_CANARY(); }
#endif
