/* C14: contract harness for format_seg (loop-free).  snprintf calls with the fixed HYP_FORMAT are routed to a
 * 7-argument function so that it can carry a contract (variadic functions cannot). */
#include "ssw_ghost.h"
#include <stdio.h>
int ssw_snprintf4(char *buf, size_t size, const char *fmt, double b, double d, double p, const char *t);
#define snprintf ssw_snprintf4
#include "decoder.c"
#undef snprintf
#include "json.contracts.h"
#include "ssw_stubs.h"
#ifdef SSW_CBMC
#ifdef VERIF_JSON_EMPTY
void h_decoder_result_json_empty(void) { decoder_t *d; double s; int a; decoder_result_json(d, s, a); VERIF_CANARY(); }
#endif
void h_format_seg(void) { char *o; int l; seg_iter_t *s; double u; int f; logmath_t *lm; format_seg(o, l, s, u, f, lm); VERIF_CANARY(); }
#endif
