/* C07: harnesses for the feature ring of src/acmod.c */
#include "ssw_ghost.h"
#include "acmod.c"
#include "acmod.contracts.h"
#include "ssw_stubs.h"
#ifdef SSW_CBMC
void h_acmod_advance(void) { acmod_t *a; acmod_advance(a); VERIF_CANARY(); }
void h_calc_feat_idx(void) { acmod_t *a; int f; calc_feat_idx(a, f); VERIF_CANARY(); }
void h_acmod_rewind(void) { acmod_t *a; acmod_rewind(a); VERIF_CANARY(); }
void h_acmod_process_cep(void) { acmod_t *a; mfcc_t ***c; int *n; int f; acmod_process_cep(a, c, n, f); VERIF_CANARY(); }
#endif
