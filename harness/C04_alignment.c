/* C04: harnesses for src/ps_alignment.c */
#include "ssw_ghost.h"
#include "ps_alignment.c"
#ifdef VERIF_REALLOC_CONTRACT
#define SSW_NO_ALLOC_STUBS
#endif
#include "ssw_stubs.h"
#if defined(SSW_CBMC) && defined(VERIF_REALLOC_CONTRACT)
/* assumed: reallocation hands out a fresh block of the requested size and releases the old one (contents not
 * modelled: CBMC's copying realloc model makes this 10-line function take minutes) */
void *__ckd_realloc__(void *ptr, size_t new_size, const char *file, int line)
__CPROVER_requires(new_size > 0 && new_size % 40 == 0)
__CPROVER_assigns(verif_room)
__CPROVER_frees(ptr)
__CPROVER_ensures(__CPROVER_is_fresh(__CPROVER_return_value, new_size) && verif_room == (int)(new_size / 40))
;
void *__ckd_calloc__(size_t n, size_t sz, const char *file, int line) { (void)file; (void)line; return calloc(n, sz); }
void *__ckd_malloc__(size_t sz, const char *file, int line) { (void)file; (void)line; return malloc(sz); }
void ckd_free(void *ptr) { free(ptr); }
#endif

#ifdef SSW_CBMC
/* capacity discipline of the entry vectors: n <= n_alloc, the new slot lies inside the (re)allocated block, NULL (and
 * nothing changed) only at the 16-bit limit */
static void *vector_grow_one(void *ptr, uint16 *n_alloc, uint16 *n, size_t item_size)
__CPROVER_requires(__CPROVER_is_fresh(n_alloc, sizeof(*n_alloc)) && __CPROVER_is_fresh(n, sizeof(*n)) && *n <= *n_alloc && item_size == 40)
__CPROVER_requires(ptr == NULL ? *n_alloc == 0 : (__CPROVER_is_fresh(ptr, 40 * 8) && *n_alloc == 8))
__CPROVER_assigns(*n, *n_alloc, verif_room)
__CPROVER_frees(ptr)
__CPROVER_ensures(IMP(__CPROVER_return_value == NULL, *n == __CPROVER_old(*n) && *n_alloc == __CPROVER_old(*n_alloc)))
__CPROVER_ensures(IMP(__CPROVER_return_value != NULL, *n == __CPROVER_old(*n) + 1 && *n <= *n_alloc && *n_alloc >= __CPROVER_old(*n_alloc)))
/* when the block is (re)allocated the new capacity is count + VECTOR_GROW and the block requested holds it (the size is an
 * obligation at the allocator call: ghost verif_room receives the number of entries requested) */
__CPROVER_ensures(IMP(__CPROVER_return_value != NULL && *n_alloc != __CPROVER_old(*n_alloc), *n_alloc == *n + 10 && verif_room == *n_alloc))
;
void h_vector_grow_one(void) { void *p; uint16 *a, *n; vector_grow_one(p, a, n, 40); VERIF_CANARY(); }  /* item size constant: symex folds the multiplications */
#endif

/* bounded: durations and scores propagate from states to phones to words as sums; a parent starts with its first child */
#ifndef NSTATE
#define NSTATE 4
#endif
#define NPHONE 3
#define NWORD 2
void r_alignment_propagate(void)
{
    IN(int, in_ns); IN(int, in_np); IN(int, in_nw);
    IN_ARR(int, in_sdur, NSTATE); IN_ARR(int, in_sscr, NSTATE); IN_ARR(int, in_sstart, NSTATE); IN_ARR(int, in_spar, NSTATE); IN_ARR(int, in_ppar, NPHONE);
    IN_ARR(int, in_stale, NPHONE + NWORD); IN(int, in_q);
    static alignment_t al; static alignment_entry_t st[NSTATE], ph[NPHONE], wd[NWORD];
    SSW_ASSUME(1 <= in_ns && in_ns <= NSTATE && 1 <= in_np && in_np <= NPHONE && 1 <= in_nw && in_nw <= NWORD);
    /* parents are non-decreasing, start at 0, every parent has a child (what alignment_populate establishes) */
    int prev = 0;
    for (int i = 0; i < NSTATE; i++) {
        SSW_ASSUME(0 <= in_sdur[i] && in_sdur[i] <= 1000 && -100000 <= in_sscr[i] && in_sscr[i] <= 0 && 0 <= in_sstart[i] && in_sstart[i] <= 100000);
        if (i < in_ns) { SSW_ASSUME(in_spar[i] == prev || in_spar[i] == prev + 1); SSW_ASSUME(i > 0 || in_spar[i] == 0); prev = in_spar[i]; SSW_ASSUME(in_spar[i] < in_np); }
        st[i].duration = in_sdur[i]; st[i].score = in_sscr[i]; st[i].start = in_sstart[i]; st[i].parent = in_spar[i];
    }
    SSW_ASSUME(prev == in_np - 1);
    prev = 0;
    for (int i = 0; i < NPHONE; i++) {
        if (i < in_np) { SSW_ASSUME(in_ppar[i] == prev || in_ppar[i] == prev + 1); SSW_ASSUME(i > 0 || in_ppar[i] == 0); prev = in_ppar[i]; SSW_ASSUME(in_ppar[i] < in_nw); }
        ph[i].parent = in_ppar[i]; ph[i].duration = in_stale[i]; ph[i].score = in_stale[i]; ph[i].start = in_stale[i];   /* stale values from an earlier pass */
    }
    SSW_ASSUME(prev == in_nw - 1);
    for (int i = 0; i < NWORD; i++) { wd[i].duration = in_stale[NPHONE + i]; wd[i].score = in_stale[NPHONE + i]; wd[i].start = in_stale[NPHONE + i]; }
    al.state.seq = st; al.state.n_ent = (uint16)in_ns; al.sseq.seq = ph; al.sseq.n_ent = (uint16)in_np; al.word.seq = wd; al.word.n_ent = (uint16)in_nw;
    alignment_propagate(&al);
    /* witness phone / word */
    SSW_ASSUME(0 <= in_q && in_q < NPHONE);
    if (in_q < in_np) {
        int d = 0, s = 0, first = -1;
        for (int i = 0; i < NSTATE; i++) if (i < in_ns && st[i].parent == in_q) { d += st[i].duration; s += st[i].score; if (first < 0) first = i; }
        SSW_ASSERT(ph[in_q].duration == d && ph[in_q].score == s, "a phone's duration and score are the sums over its states");
        SSW_ASSERT(first >= 0 && ph[in_q].start == st[first].start, "a phone starts where its first state starts");
    }
    if (in_q < in_nw) {
        int d = 0, s = 0, first = -1;
        for (int i = 0; i < NPHONE; i++) if (i < in_np && ph[i].parent == in_q) { d += ph[i].duration; s += ph[i].score; if (first < 0) first = i; }
        SSW_ASSERT(wd[in_q].duration == d && wd[in_q].score == s, "a word's duration and score are the sums over its phones");
        SSW_ASSERT(first >= 0 && wd[in_q].start == ph[first].start, "a word starts where its first phone starts");
    }
    VERIF_CANARY();
}
