/* C18/C06: arithmetic lemmas over the full 16-bit domain, using the scale constant of the real header. */
#include "ssw_ghost.h"
#include <soundswallower/fe.h>
/* int16 input and the equivalent float input (s / 32768) put bit-identical values into the analysis window:
 * fe_read_frame_int16 stores (float32)s, fe_read_frame_float32 stores in * FLOAT32_SCALE, the overflow path stores
 * (float32)s / FLOAT32_SCALE and later multiplies it back. */
void r_int16_float_exact(void)
{
    IN(short, in_s);
    float32 direct = (float32)in_s;
    float32 as_float_input = (float32)in_s / FLOAT32_SCALE;
    float32 via_float_path = as_float_input * FLOAT32_SCALE;
    SSW_ASSERT(via_float_path == direct, "int16 -> float32 scaling round trip is exact");
    SSW_ASSERT(direct >= -32768.0f && direct <= 32767.0f && direct == direct, "converted samples are finite and in range");
    VERIF_CANARY();
}
