/* C01 (word-arc groups): the "serves every right context" set used by word exits of fillers and one-phone words */
#include "ssw_ghost.h"
#include "fsg_lextree.c"
#include "ssw_stubs.h"
#ifdef SSW_CBMC
void fsg_pnode_add_all_ctxt(fsg_pnode_ctxt_t *ctxt)
__CPROVER_requires(__CPROVER_is_fresh(ctxt, sizeof(*ctxt)))
__CPROVER_assigns(*ctxt)
__CPROVER_ensures(ctxt->bv[0] == 0xffffffffu && ctxt->bv[1] == 0xffffffffu && ctxt->bv[2] == 0xffffffffu && ctxt->bv[3] == 0xffffffffu)
;
void h_fsg_pnode_add_all_ctxt(void) { fsg_pnode_ctxt_t *c; fsg_pnode_add_all_ctxt(c); VERIF_CANARY(); }
#endif
