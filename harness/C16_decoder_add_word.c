/* C16/C10 (bounded): decoder_add_word's phone-string parser on every phone string of <= PLEN characters.
 * dict_add_word / dict2pid_add_word / bin_mdef_ciphone_id are executable stubs (their own checks are elsewhere). */
#include "ssw_ghost.h"
#define dict_add_word ssw_dict_add_word
#define dict2pid_add_word ssw_d2p_add_word
#define bin_mdef_ciphone_id ssw_ciphone_id
#include "decoder.c"
#undef dict_add_word
#undef dict2pid_add_word
#undef bin_mdef_ciphone_id
#include "ssw_stubs.h"
#ifndef PLEN
#define PLEN 4
#endif
static int g_np, g_added, g_sum;
s3wid_t ssw_dict_add_word(dict_t *d, const char *word, s3cipid_t const *p, int32 np)
{ (void)d; (void)word; g_np = np; g_added++; for (int i = 0; i < PLEN + 1; i++) if (i < np) g_sum += p[i]; /* reads every id: must be inside the buffer */ return 7; }
int ssw_d2p_add_word(dict2pid_t *d2p, s3wid_t wid) { (void)d2p; (void)wid; return 0; }
/* phones are the strings starting with an upper-case letter; anything else is unknown */
int ssw_ciphone_id(bin_mdef_t *m, const char *ciphone) { (void)m; return (ciphone[0] >= 'A' && ciphone[0] <= 'Z') ? ciphone[0] - 'A' : -1; }
int isspace_c(char ch) { return ch == ' ' || ch == '\t' || ch == '\n' || ch == '\r' || ch == '\v' || ch == '\f'; }

void r_decoder_add_word(void)
{
    IN_ARR(char, in_ph, PLEN); IN(int, in_len); IN(int, in_emptyword);
    static decoder_t d; static acmod_t am;
    SSW_ASSUME(0 <= in_len && in_len <= PLEN);
    char phones[PLEN + 1];
    int nphones = 0, unknown = 0, inword = 0;
    for (int i = 0; i < PLEN; i++) {
        if (i < in_len) {
            SSW_ASSUME(in_ph[i] != 0);
            phones[i] = in_ph[i];
            int sp = isspace_c(in_ph[i]);
            if (!sp && !inword) { nphones++; if (!(in_ph[i] >= 'A' && in_ph[i] <= 'Z')) unknown = 1; }
            inword = !sp;
        } else phones[i] = 0;
    }
    phones[PLEN] = 0;
    d.acmod = &am; d.dict = NULL; d.d2p = NULL; d.search = NULL;
    g_np = -1; g_added = 0;
    int r = decoder_add_word(&d, in_emptyword ? "" : "w", phones, 0);
    if (in_emptyword || nphones == 0 || unknown) {
        /* "a rejected addition (unknown phone, empty word or pronunciation) reports failure" -- up to the first unknown phone
         * the parser may have seen valid ones, but nothing is added */
        SSW_ASSERT(r == -1 && g_added == 0, "empty word, empty pronunciation or unknown phone is rejected and nothing is added");
    } else {
        SSW_ASSERT(r == 7 && g_added == 1 && g_np == nphones, "the parsed pronunciation has one id per phone and is added once");
    }
    VERIF_CANARY();
}
