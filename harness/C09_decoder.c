/* C09: typestate harnesses for src/decoder.c */
#include "ssw_ghost.h"
#include "decoder.c"
#include "decoder.contracts.h"
#include "ssw_stubs.h"
#ifdef SSW_CBMC
void h_decoder_process_int16(void) { decoder_t *d; int16 *p; size_t n; int a, b; decoder_process_int16(d, p, n, a, b); VERIF_CANARY(); }
void h_decoder_process_float32(void) { decoder_t *d; float32 *p; size_t n; int a, b; decoder_process_float32(d, p, n, a, b); VERIF_CANARY(); }
void h_decoder_start_utt(void) { decoder_t *d; decoder_start_utt(d); VERIF_CANARY(); }
void h_decoder_end_utt(void) { decoder_t *d; decoder_end_utt(d); VERIF_CANARY(); }
void h_decoder_hyp(void) { decoder_t *d; int32 *s; decoder_hyp(d, s); VERIF_CANARY(); }
void h_decoder_seg_iter(void) { decoder_t *d; decoder_seg_iter(d); VERIF_CANARY(); }
void h_decoder_lattice(void) { decoder_t *d; decoder_lattice(d); VERIF_CANARY(); }
#endif
