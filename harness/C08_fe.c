#include "ssw_ghost.h"
#include "fe_interface.c"
#define VERIF_TU_FE
#include "reset.contracts.h"
#include "ssw_stubs.h"
#ifdef SSW_CBMC
void h_fe_start(void) { fe_t *f; fe_start(f); VERIF_CANARY(); }
#endif
