/* C01/C03: harnesses for the history consumers in src/fsg_search.c */
#include "ssw_ghost.h"
#include "fsg_hist.ghost.h"
#include "fsg_search.c"
#include "fsg_search.contracts.h"
#define SSW_NO_ERR_STUBS
#include "ssw_stubs.h"
#ifdef SSW_CBMC
/* logging: no effect on program state (assumed) */
void err_msg(err_lvl_t lvl, const char *path, long ln, const char *fmt, ...)
__CPROVER_requires(1) __CPROVER_assigns() __CPROVER_ensures(1);
void h_fsg_search_find_exit(void) { fsg_search_t *f; int fr; int fin; int32 *o; fsg_search_find_exit(f, fr, fin, o); VERIF_CANARY(); }
#ifdef VERIF_CASE_NO_EXIT
void h_fsg_search_hyp_noexit(void) { search_module_t *s; int32 *o; fsg_search_hyp(s, o); VERIF_CANARY(); }
void h_fsg_search_seg_iter_noexit(void) { search_module_t *s; fsg_search_seg_iter(s); VERIF_CANARY(); }
#endif
void h_fsg_seg_bp2itor(void) { seg_iter_t *s; fsg_hist_entry_t *e; fsg_seg_bp2itor(s, e); VERIF_CANARY(); }
#endif
