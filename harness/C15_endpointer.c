/* C15: harnesses for src/ps_endpointer.c */
#include "ssw_ghost.h"
#include "ps_endpointer.c"
#include "ps_endpointer.contracts.h"
#include "mem.contracts.h"
#include "ssw_stubs.h"
#ifdef SSW_REPLAY
/* the VAD is not part of the replayed functions */
vad_class_t vad_classify(vad_t *vad, const short *frame) { (void)vad; (void)frame; return 0; }
int vad_sample_rate(vad_t *vad) { (void)vad; return 16000; }
size_t vad_frame_size(vad_t *vad) { (void)vad; return EP_FS; }
double vad_frame_length(vad_t *vad) { (void)vad; return 0.03; }
vad_t *vad_init(vad_mode_t mode, int sample_rate, double frame_length) { (void)mode; (void)sample_rate; (void)frame_length; return NULL; }
int vad_free(vad_t *vad) { (void)vad; return 0; }
#endif

#ifdef SSW_CBMC
void h_ep_push(void) { endpointer_t *ep; int s; const int16 *f; ep_push(ep, s, f); VERIF_CANARY(); }
void h_ep_pop(void) { endpointer_t *ep; int *o; ep_pop(ep, o); VERIF_CANARY(); }
void h_ep_speech_count(void) { endpointer_t *ep; ep_speech_count(ep); VERIF_CANARY(); }
void h_ep_linearize(void) { endpointer_t *ep; ep_linearize(ep); VERIF_CANARY(); }
void h_ep_empty(void) { endpointer_t *ep; ep_empty(ep); VERIF_CANARY(); }
void h_ep_full(void) { endpointer_t *ep; ep_full(ep); VERIF_CANARY(); }
#ifndef EP_SYMBOLIC_MAXLEN
void h_endpointer_end_stream(void) { endpointer_t *ep; const int16 *f; size_t n; size_t *o; endpointer_end_stream(ep, f, n, o); VERIF_CANARY(); }
#endif
void h_endpointer_process(void) { endpointer_t *ep; const int16 *f; endpointer_process(ep, f); VERIF_CANARY(); }
#endif

#ifndef EP_SYMBOLIC_MAXLEN
/* Constructive harness for the counting loop: every (pos, n) of a small queue, symbolic flags; the result must be
 * the number of set flags among the n live slots and every read must stay inside is_speech[0..maxlen).
 * Also the native replay driver for ep_speech_count. */
void r_ep_speech_count(void)
{
    IN(int, in_pos); IN(int, in_n);
    IN_ARR(signed char, in_flags, EP_MAXLEN);
    endpointer_t *ep = calloc(1, sizeof *ep);
    SSW_ASSUME(ep != NULL);
    ep->maxlen = EP_MAXLEN; ep->frame_size = EP_FS;
    ep->is_speech = malloc(EP_MAXLEN);
    SSW_ASSUME(ep->is_speech != NULL);
    SSW_ASSUME(0 <= in_pos && in_pos < EP_MAXLEN && 0 <= in_n && in_n <= EP_MAXLEN);
    int expect = 0;
    for (int i = 0; i < EP_MAXLEN; i++) {
        SSW_ASSUME(in_flags[i] == 0 || in_flags[i] == 1);
        ep->is_speech[i] = in_flags[i];
    }
    for (int j = 0; j < EP_MAXLEN; j++)
        if (j < in_n) expect += in_flags[(in_pos + j) % EP_MAXLEN];
    ep->pos = in_pos; ep->n = in_n;
    int r = ep_speech_count(ep);
    SSW_ASSERT(r == expect, "ep_speech_count returns the number of speech flags among the n live slots");
    VERIF_CANARY();
}
#endif
