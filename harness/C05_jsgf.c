/* C05: the refusal clause of the JSGF compiler (src/jsgf.c) */
#include "ssw_ghost.h"
#include "jsgf.c"
#include "ssw_stubs.h"
#ifdef SSW_CBMC
int verif_expand_ret;
/* expansion of the public rule: may grow the state count, leaves rules on the stack when it fails (assumed summary of
 * the recursive expand_rule/expand_rhs pair, which DFCC cannot take: recursion) */
static int expand_rule(jsgf_t *grammar, jsgf_rule_t *rule)
__CPROVER_requires(grammar != NULL && rule != NULL)
__CPROVER_assigns(grammar->nstate, grammar->links, grammar->rulestack, rule->entry, rule->exit)
__CPROVER_ensures(__CPROVER_return_value == verif_expand_ret && verif_expand_ret >= -1)
;
void glist_free(glist_t g) __CPROVER_requires(1) __CPROVER_assigns() __CPROVER_ensures(1);
/* "a grammar the compiler cannot represent is refused instead of being compiled into a different language" */
static fsg_model_t *jsgf_build_fsg_internal(jsgf_t *grammar, jsgf_rule_t *rule, logmath_t *lmath, float32 lw, int do_closure)
__CPROVER_requires(__CPROVER_is_fresh(grammar, sizeof(*grammar)) && __CPROVER_is_fresh(rule, sizeof(*rule)) && grammar->links == NULL)
__CPROVER_requires(verif_expand_ret == -1)
__CPROVER_assigns(grammar->nstate, grammar->links, grammar->rulestack, rule->entry, rule->exit)
__CPROVER_ensures(__CPROVER_return_value == NULL)
__CPROVER_ensures(grammar->rulestack == NULL)
;
void h_jsgf_build_fsg_internal(void) { jsgf_t *g; jsgf_rule_t *r; logmath_t *l; float32 lw; int c; jsgf_build_fsg_internal(g, r, l, lw, c); VERIF_CANARY(); }
#endif
