/* C05: the refusal clause of the JSGF compiler (src/jsgf.c) */
#include "ssw_ghost.h"
#include "jsgf.c"
#include "ssw_stubs.h"
#if defined(SSW_CBMC) && !defined(VERIF_C05_RHS)
int verif_expand_ret;
/* expansion of the public rule: may grow the state count, leaves rules on the stack when it fails (assumed summary of
 * the recursive expand_rule/expand_rhs pair, which DFCC cannot take: recursion) */
static int expand_rule(jsgf_t *grammar, jsgf_rule_t *rule)
__CPROVER_requires(grammar != NULL && rule != NULL)
__CPROVER_assigns(grammar->nstate, grammar->links, grammar->rulestack, rule->entry, rule->exit)
__CPROVER_ensures(__CPROVER_return_value == verif_expand_ret && verif_expand_ret >= -1)
;
void glist_free(glist_t g) __CPROVER_requires(1) __CPROVER_assigns() __CPROVER_ensures(1);
/* "a grammar the compiler cannot represent is refused instead of being compiled into a different language" */
static fsg_model_t *jsgf_build_fsg_internal(jsgf_t *grammar, jsgf_rule_t *rule, logmath_t *lmath, float32 lw, int do_closure)
__CPROVER_requires(__CPROVER_is_fresh(grammar, sizeof(*grammar)) && __CPROVER_is_fresh(rule, sizeof(*rule)) && grammar->links == NULL)
__CPROVER_requires(verif_expand_ret == -1)
__CPROVER_assigns(grammar->nstate, grammar->links, grammar->rulestack, rule->entry, rule->exit)
__CPROVER_ensures(__CPROVER_return_value == NULL)
__CPROVER_ensures(grammar->rulestack == NULL)
;
void h_jsgf_build_fsg_internal(void) { jsgf_t *g; jsgf_rule_t *r; logmath_t *l; float32 lw; int c; jsgf_build_fsg_internal(g, r, l, lw, c); VERIF_CANARY(); }
#endif

#ifdef SSW_CBMC
#ifdef VERIF_C05_RHS
/* ---- expand_rhs on right-hand sides of <= 2 atoms: what is emitted for each kind of atom ---- */
jsgf_rule_t *verif_subrule;     /* the rule a reference resolves to (hash lookup view) */
int verif_sub_found;            /* is the referenced rule defined? */
int verif_nlinks;               /* links emitted so far */
int verif_last_from, verif_last_to; jsgf_atom_t *verif_last_atom;
#define IS_NULL_ATOM(a) ((a)->name[0] == '<' && (a)->name[1] == 'N' && (a)->name[2] == 'U' && (a)->name[3] == 'L' && (a)->name[4] == 'L' && (a)->name[5] == '>' && (a)->name[6] == 0)
/* assumed: rule table lookup */
int32 hash_table_lookup(hash_table_t *h, const char *key, void **val)
__CPROVER_requires(val != NULL)
__CPROVER_assigns(*val)
__CPROVER_ensures(__CPROVER_return_value == (verif_sub_found ? 0 : -1))
__CPROVER_ensures(IMP(verif_sub_found, *val == (void *)verif_subrule))
;
char *jsgf_fullname_from_rule(jsgf_rule_t *rule, const char *name)
__CPROVER_requires(1) __CPROVER_assigns() __CPROVER_ensures(__CPROVER_is_fresh(__CPROVER_return_value, 4));
/* every link emitted for a reference to a defined rule must ENTER THAT RULE (its entry state) -- for a reference that is
 * expanded as much as for a right-recursive one; a token or <NULL> gets a fresh state */
void jsgf_add_link(jsgf_t *grammar, jsgf_atom_t *atom, int from, int to)
__CPROVER_requires(grammar != NULL)
__CPROVER_requires(IMP(atom != NULL && atom->name[0] == '<' && !IS_NULL_ATOM(atom), to == verif_subrule->entry))
__CPROVER_requires(IMP(atom != NULL && (atom->name[0] != '<' || IS_NULL_ATOM(atom)), to == grammar->nstate))
__CPROVER_assigns(verif_nlinks, verif_last_from, verif_last_to, verif_last_atom)
__CPROVER_ensures(verif_nlinks == __CPROVER_old(verif_nlinks) + 1 && verif_last_from == from && verif_last_to == to && verif_last_atom == atom)
;
static int expand_rule(jsgf_t *grammar, jsgf_rule_t *rule)
__CPROVER_requires(grammar != NULL && rule == verif_subrule)
__CPROVER_assigns(grammar->nstate, rule->entry, rule->exit)
__CPROVER_ensures(__CPROVER_return_value == -1 || (__CPROVER_return_value == rule->exit && rule->entry >= 0 && rule->exit >= 0 && rule->entry < 10000 && rule->exit < 10000))
__CPROVER_ensures(grammar->nstate >= __CPROVER_old(grammar->nstate) && grammar->nstate <= 10000)
;
#define ATOM_OK(a) (__CPROVER_is_fresh(a, sizeof(jsgf_atom_t)) && __CPROVER_is_fresh((a)->name, 8) && (a)->name[0] != 0 && (a)->name[7] == 0)
static int expand_rhs(jsgf_t *grammar, jsgf_rule_t *rule, jsgf_rhs_t *rhs)
__CPROVER_requires(__CPROVER_is_fresh(grammar, sizeof(*grammar)) && __CPROVER_is_fresh(rule, sizeof(*rule)) && __CPROVER_is_fresh(rhs, sizeof(*rhs)))
__CPROVER_requires(0 <= grammar->nstate && grammar->nstate <= 1000 && 0 <= rule->entry && rule->entry < 1000)
__CPROVER_requires(__CPROVER_is_fresh(verif_subrule, sizeof(jsgf_rule_t)) && 0 <= verif_subrule->entry && verif_subrule->entry < 1000 && verif_nlinks == 0)
/* one atom (the second position is where "atoms follow" matters: left / embedded recursion) */
__CPROVER_requires(__CPROVER_is_fresh(rhs->atoms, sizeof(gnode_t)) && ATOM_OK((jsgf_atom_t *)rhs->atoms->data.ptr))
__CPROVER_requires(rhs->atoms->next == NULL || (__CPROVER_is_fresh(rhs->atoms->next, sizeof(gnode_t)) && rhs->atoms->next->next == NULL && ATOM_OK((jsgf_atom_t *)rhs->atoms->next->data.ptr)))
/* the rule stack holds the referenced rule or not */
__CPROVER_requires(grammar->rulestack == NULL || (__CPROVER_is_fresh(grammar->rulestack, sizeof(gnode_t)) && grammar->rulestack->next == NULL && grammar->rulestack->data.ptr == (void *)verif_subrule))
__CPROVER_assigns(grammar->nstate, verif_subrule->entry, verif_subrule->exit, verif_nlinks, verif_last_from, verif_last_to, verif_last_atom)
/* refusals: <VOID>, undefined rule, recursion with atoms following */
__CPROVER_ensures(IMP(__CPROVER_return_value >= 0, verif_nlinks >= 1))
__CPROVER_ensures(__CPROVER_return_value >= -2)
;
void h_expand_rhs(void) { jsgf_t *g; jsgf_rule_t *r; jsgf_rhs_t *h; expand_rhs(g, r, h); VERIF_CANARY(); }
#endif
#endif
