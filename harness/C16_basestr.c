/* C16: dict_word2basestr under contract for words of any length <= 2000: a trailing "(...)" is cut at its LAST opening
 * parenthesis (not at position 0), nothing else changes; otherwise -1 and nothing changes.  strlen is routed to a
 * function with an ASSUMED contract (returns the ghost length verif_keylen; word[verif_keylen] == 0 is required). */
#include "ssw_ghost.h"
#include <string.h>
size_t ssw_strlen(const char *s);
#define strlen ssw_strlen
#include "dict.c"
#undef strlen
#include "ssw_stubs.h"
#ifdef SSW_CBMC
char verif_snap;          /* word[verif_k] before the call */
char *verif_word;
size_t ssw_strlen(const char *s)
__CPROVER_requires(s == verif_word)
__CPROVER_assigns()
__CPROVER_ensures(__CPROVER_return_value == verif_keylen)
;
int32 dict_word2basestr(char *word)
__CPROVER_requires(verif_keylen <= 2000 && __CPROVER_is_fresh(word, verif_keylen + 1) && word == verif_word)
__CPROVER_requires(word[verif_keylen] == '\0')
__CPROVER_requires(0 <= verif_k && (size_t)verif_k < verif_keylen && verif_snap == word[verif_k])
__CPROVER_assigns(__CPROVER_object_whole(word))
#define WLEN ((int)verif_keylen)
#define RET __CPROVER_return_value
__CPROVER_ensures(RET == -1 || (RET > 0 && RET <= WLEN - 2))
/* cut: at an opening parenthesis, the word ended in ')', and it is the LAST '(' before it */
__CPROVER_ensures(IMP(RET > 0, word[RET] == '\0' && word[WLEN - 1] == ')'))
__CPROVER_ensures(IMP(RET > 0 && verif_k == RET, verif_snap == '('))
__CPROVER_ensures(IMP(RET > 0 && RET < verif_k && verif_k <= WLEN - 2, verif_snap != '('))
/* frame: every other character keeps its value; a refused word is untouched */
__CPROVER_ensures(IMP(verif_k != RET, word[verif_k] == verif_snap))
/* refusal is justified: empty word, no closing parenthesis at the end, or no '(' after position 0 */
__CPROVER_ensures(IMP(RET == -1 && WLEN > 0 && word[WLEN - 1] == ')' && 1 <= verif_k && verif_k <= WLEN - 2, verif_snap != '('))
;
void h_dict_word2basestr_contract(void) { char *w; dict_word2basestr(w); VERIF_CANARY(); }
void ssw_keep_refs(void) { (void)ssw_strlen(NULL); }
#endif
