/* Ghost vocabulary shared by every verification TU (guard: SOUNDSWALLOWER_VERIF).
 * Included first by every harness; never seen by the CMake build of the library. */
#ifndef SSW_GHOST_H
#define SSW_GHOST_H
#include <stddef.h>
#include <stdint.h>
#include <stdlib.h> /* with -Dexit=ssw_exit -Dabort=ssw_abort this declares the stubs' prototypes */
#include <string.h>
#include <limits.h>

/* implication usable both in CBMC clauses and in native replay */
#define IMP(a, b) (!(a) || (b))
#if defined(SSW_CBMC)
/* "the process is never terminated" becomes an obligation of every group */
#ifndef SSW_NO_STUB_DEFS
void ssw_exit(int c) { (void)c; __CPROVER_assert(0, "process exit reached (exit)"); __CPROVER_assume(0); }
void ssw_abort(void) { __CPROVER_assert(0, "process exit reached (abort)"); __CPROVER_assume(0); }
#endif
/* vacuity canary: MUST fail, otherwise the end of the harness is unreachable */
#define VERIF_CANARY() __CPROVER_assert(0, "VERIF_CANARY end of harness reachable")
#define VERIF_CANARY_AT(what) __CPROVER_assert(0, "VERIF_CANARY " what)
/* re-materialise a pointer value after a loop havoc: proved, then assigned (semantically a no-op) */
#define PTR_HINT(p, e) do { __CPROVER_assert((p) == (e), "ghost pointer hint holds"); (p) = (e); } while (0)
#define SSW_ASSERT(c, text) __CPROVER_assert(c, text)
#define SSW_ASSUME(c) __CPROVER_assume(c)
#define IN(type, name) type name
#define IN_ARR(type, name, n) type name[n]
#elif defined(SSW_REPLAY)
#include <stdio.h>
/* native replay: inputs come from the verifier's counterexample (replay/replay_main.c) */
long long ssw_in_ll(const char *name, int idx, const char *field);
double ssw_in_double(const char *name, int idx, const char *field);
void ssw_replay_fail(const char *text);
#define VERIF_CANARY() ((void)0)
#define VERIF_CANARY_AT(what) ((void)0)
#define PTR_HINT(p, e) ((void)0)
#define SSW_ASSERT(c, text) do { if (!(c)) ssw_replay_fail(text); } while (0)
#define SSW_ASSUME(c) do { if (!(c)) { fprintf(stderr, "replay: assumption rejected: %s\n", #c); exit(77); } } while (0)
#define IN(type, name) type name = (type)ssw_in_ll(#name, -1, NULL)
#define IN_ARR(type, name, n) type name[n]; do { for (int i_ = 0; i_ < (n); i_++) name[i_] = (type)ssw_in_ll(#name, i_, NULL); } while (0)
#endif

#endif
