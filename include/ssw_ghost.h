/* Ghost vocabulary shared by every verification TU (guard: SOUNDSWALLOWER_VERIF).
 * Included first by every harness; never seen by the CMake build of the library. */
#ifndef SSW_GHOST_H
#define SSW_GHOST_H
#include <stddef.h>
#include <stdint.h>
#include <stdlib.h> /* with -Dexit=ssw_exit -Dabort=ssw_abort this declares the stubs' prototypes */
#include <string.h>
#include <limits.h>

/* implication usable both in CBMC clauses and in native replay */
#define IMP(a, b) (!(a) || (b))
/* ---- ghost state (nondeterministic statics under DFCC; never read by library code) ---- */
/* generic witnesses: an arbitrary index / element position, fixed by the harness, never written by code */
int verif_w, verif_k;
/* C02 */
int verif_hs[5];      /* pre-state s_i = score_i - senscore_i of the HMM under evaluation */
int verif_hact[5];    /* pre-state activity of each state (multiplex HMMs) */
/* C17 / C10: file view of an s3file_t */
size_t verif_flen, verif_foff, verif_woff, verif_bufsz, verif_alloc_limit;
/* C16: map view of the dictionary's word hash table at the keys one dict_add_word call touches */
int verif_base_present, verif_base_wid, verif_dup_present, verif_dup_wid, verif_baselen, verif_entered_cnt;
/* C14 */
int verif_snlen, verif_js_sf, verif_js_dur, verif_js_frate; double verif_js_start;
/* C07 */
int verif_room;       /* feature slots from the current write position to the end of the allocation */
/* C08 */
int verif_noise_reset;
/* C03: frame counters */
int verif_steps;      /* number of search steps taken */
int verif_fwd_sum;    /* frames searched so far as reported by search_module_forward */
int verif_raw_calls;
/* C20 */
size_t verif_keylen;  /* length of the NUL-terminated key handed to key2hash */
#define SPEC_UP(c) (((c) >= 'a' && (c) <= 'z') ? (char)((c) - 32) : (char)(c))
/* C15 */
int verif_last_count; /* value returned by the last ep_speech_count() */
int verif_vad_rate;   /* sample rate reported by the (assumed) VAD */


/* ghost hooks named by always-injected ghost statements in src/fsg_search.c (word-arc producers); only the word-arc
 * harness (harness/C01_wordarcs.c, which defines SSW_WORDARC before including this file) gives them a meaning */
#ifndef SSW_WORDARC
#define VERIF_PT_PRE(child) ((void)0)
#define VERIF_PT_ENTER() ((void)0)
#define VERIF_PP_PRE(gn, pnode) ((void)0)
#define VERIF_PP_POST(pnode, thresh, pth, wth) ((void)0)
#define VERIF_PT_POST(child, hmm, thresh, nf) ((void)0)
#define VERIF_WT_ROOTS(d) ((void)0)
#define VERIF_WT_PRE(root, e, bpidx) ((void)0)
#define VERIF_WT_POST(root, e, score, lc, rc, bpidx, thresh, nf) ((void)0)
#endif

#if defined(SSW_CBMC)
/* "the process is never terminated" becomes an obligation of every group */
#ifndef SSW_NO_STUB_DEFS
void ssw_exit(int c) { (void)c; __CPROVER_assert(0, "process exit reached (exit)"); __CPROVER_assume(0); }
void ssw_abort(void) { __CPROVER_assert(0, "process exit reached (abort)"); __CPROVER_assume(0); }
#endif
/* vacuity canary: MUST fail, otherwise the end of the harness is unreachable */
#define VERIF_CANARY() __CPROVER_assert(0, "VERIF_CANARY end of harness reachable")
#define VERIF_CANARY_AT(what) __CPROVER_assert(0, "VERIF_CANARY " what)
/* re-materialise a pointer value after a loop havoc: proved, then assigned (semantically a no-op) */
#define PTR_HINT(p, e) do { __CPROVER_assert((p) == (e), "ghost pointer hint holds"); (p) = (e); } while (0)
#define SSW_ASSERT(c, text) __CPROVER_assert(c, text)
#define SSW_ASSUME(c) __CPROVER_assume(c)
#define IN(type, name) type name
#define IN_ARR(type, name, n) type name[n]
/* memcpy/memmove with a symbolic length: CBMC's built-in model (array_replace over a variable-length array) gave a
 * wrong copy in a probe, so the verification build uses plain byte loops (unwound; the unwinding assertion makes the
 * bound an obligation).  Groups that only need bounds replace ssw_memcpy by its contract instead. */
#ifndef SSW_NO_MEM_STUBS
void *ssw_memcpy(void *dst, const void *src, size_t n)
{
    for (size_t i = 0; i < n; i++) ((unsigned char *)dst)[i] = ((const unsigned char *)src)[i];
    return dst;
}
void *ssw_memmove(void *dst, const void *src, size_t n)
{
    if ((const unsigned char *)dst <= (const unsigned char *)src || !__CPROVER_same_object(dst, src))
        for (size_t i = 0; i < n; i++) ((unsigned char *)dst)[i] = ((const unsigned char *)src)[i];
    else
        for (size_t i = n; i > 0; i--) ((unsigned char *)dst)[i - 1] = ((const unsigned char *)src)[i - 1];
    return dst;
}
void *ssw_memset(void *dst, int c, size_t n)
{
    for (size_t i = 0; i < n; i++) ((unsigned char *)dst)[i] = (unsigned char)c;
    return dst;
}
#else
void *ssw_memset(void *dst, int c, size_t n);
void *ssw_memcpy(void *dst, const void *src, size_t n);
void *ssw_memmove(void *dst, const void *src, size_t n);
#endif
#define memcpy ssw_memcpy
#define memmove ssw_memmove
#ifdef SSW_MEMSET_LOOP
/* CBMC's memset with a symbolic length mis-modelled a 16-byte clear (fe_start); opt-in byte loop */
#define memset ssw_memset
#endif
#elif defined(SSW_REPLAY)
#include <stdio.h>
/* native replay: inputs come from the verifier's counterexample (replay/replay_main.c) */
long long ssw_in_ll(const char *name, int idx, const char *field);
double ssw_in_double(const char *name, int idx, const char *field);
void ssw_replay_fail(const char *text);
#define VERIF_CANARY() ((void)0)
#define VERIF_CANARY_AT(what) ((void)0)
#define PTR_HINT(p, e) ((void)0)
#define SSW_ASSERT(c, text) do { if (!(c)) ssw_replay_fail(text); } while (0)
#define SSW_ASSUME(c) do { if (!(c)) { fprintf(stderr, "replay: assumption rejected: %s\n", #c); exit(77); } } while (0)
#define IN(type, name) type name = (type)ssw_in_ll(#name, -1, NULL)
#define IN_ARR(type, name, n) type name[n]; do { for (int i_ = 0; i_ < (n); i_++) name[i_] = (type)ssw_in_ll(#name, i_, NULL); } while (0)
#endif

#endif
