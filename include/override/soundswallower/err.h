/* Verification override of <soundswallower/err.h> (first on the include path of CBMC builds only).
 * Logging has no effect on program state (assumed): the E_* macros evaluate their arguments (so a bad dereference in
 * a log argument is still an obligation) and do nothing else; E_FATAL still reaches exit(), which is the
 * "process exit reached" obligation.  This also keeps variadic calls out of the goto model: goto-instrument 6.11
 * crashes when it inlines or replaces them in functions that carry loop contracts. */
#include_next <soundswallower/err.h>
#ifdef SSW_CBMC
#undef E_FATAL
#undef E_FATAL_SYSTEM
#undef E_ERROR_SYSTEM
#undef E_ERROR
#undef E_WARN
#undef E_INFO
#undef E_INFOCONT
#undef E_INFO_NOFN
#undef E_DEBUG
#define SSW_LOG_EVAL(...) ((void)(__VA_ARGS__))
#define E_FATAL(...) do { SSW_LOG_EVAL(__VA_ARGS__); exit(EXIT_FAILURE); } while (0)
#define E_FATAL_SYSTEM(...) do { SSW_LOG_EVAL(__VA_ARGS__); exit(EXIT_FAILURE); } while (0)
#define E_ERROR_SYSTEM(...) SSW_LOG_EVAL(__VA_ARGS__)
#define E_ERROR(...) SSW_LOG_EVAL(__VA_ARGS__)
#define E_WARN(...) SSW_LOG_EVAL(__VA_ARGS__)
#define E_INFO(...) SSW_LOG_EVAL(__VA_ARGS__)
#define E_INFOCONT(...) SSW_LOG_EVAL(__VA_ARGS__)
#define E_INFO_NOFN(...) SSW_LOG_EVAL(__VA_ARGS__)
#define E_DEBUG(...)
#endif
