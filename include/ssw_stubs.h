/* Assumed environment (DESIGN 3.3): allocation wrappers and logging as executable stubs.
 * Included by harnesses AFTER the source under verification.
 *   ckd_alloc: library policy is exit-on-OOM, so the wrappers never return NULL: the result is ASSUMED non-NULL here
 *              (under goto-instrument --dfcc the allocator may fail even with cbmc --no-malloc-may-fail); calloc zero-fills.
 *   err_msg:   logging has no effect on program state.                                                  */
#ifndef SSW_STUBS_H
#define SSW_STUBS_H
#ifdef SSW_CBMC
#include <soundswallower/ckd_alloc.h>
#include <soundswallower/err.h>
#ifndef SSW_NO_ALLOC_STUBS
void *__ckd_calloc__(size_t n_elem, size_t elem_size, const char *file, int line)
{ (void)file; (void)line; void *p = calloc(n_elem, elem_size); __CPROVER_assume(p != NULL); return p; }
void *__ckd_malloc__(size_t size, const char *file, int line)
{ (void)file; (void)line; void *p = malloc(size); __CPROVER_assume(p != NULL); return p; }
void *__ckd_realloc__(void *ptr, size_t new_size, const char *file, int line)
{ (void)file; (void)line; void *p = realloc(ptr, new_size); __CPROVER_assume(p != NULL); return p; }
char *__ckd_salloc__(const char *orig, const char *file, int line)
{ (void)file; (void)line; size_t n = strlen(orig) + 1; char *p = malloc(n); __CPROVER_assume(p != NULL); memcpy(p, orig, n); return p; }
void ckd_free(void *ptr) { free(ptr); }
#endif
#if defined(SSW_ERR_CONTRACT)
/* loop-contract groups: goto-instrument cannot inline a variadic body, so logging is replaced by a trivial contract */
void err_msg(err_lvl_t lvl, const char *path, long ln, const char *fmt, ...)
__CPROVER_requires(1) __CPROVER_assigns() __CPROVER_ensures(1);
void err_msg_system(err_lvl_t lvl, const char *path, long ln, const char *fmt, ...)
__CPROVER_requires(1) __CPROVER_assigns() __CPROVER_ensures(1);
/* keeps both symbols in the goto model so that --replace-call-with-contract finds them (never called) */
void ssw_err_refs(void) { err_msg(ERR_INFO, "", 0, ""); err_msg_system(ERR_INFO, "", 0, ""); }
#elif !defined(SSW_NO_ERR_STUBS)
void err_msg(err_lvl_t lvl, const char *path, long ln, const char *fmt, ...)
{ (void)lvl; (void)path; (void)ln; (void)fmt; }
void err_msg_system(err_lvl_t lvl, const char *path, long ln, const char *fmt, ...)
{ (void)lvl; (void)path; (void)ln; (void)fmt; }
#endif
#endif
#endif
