#!/usr/bin/env python3
"""Annotation-comment injector (DESIGN.md section 1).

Turns the in-place annotation comments of /repo

    /*@ssw loop NAME  assigns(...) invariant(...) decreases(...) */   (before a for/while head)
    /*@ssw ghost  C statements / declarations */
    /*@ssw field  struct member declarations */

into CBMC clauses / ghost text in a *scratch copy* of the file.  The rewrite is
purely additive and line-preserving:

  * a `ghost`/`field` comment is replaced by its own text (the comment
    delimiters and the "@ssw ghost" tag become blanks, newlines are kept);
  * a `loop` comment is blanked (newlines kept) and its clauses are emitted, on
    one line, directly after the closing parenthesis of the next `for (...)` /
    `while (...)` head (for `do { } while (c);` after the `while (c)`);
  * every other byte of the file is copied unchanged.

Must-fire rules: every annotation must be consumed; a `loop` annotation that is
not followed by a loop head (only white space / comments may intervene) is an
error; unknown clause names are errors.  Errors raise InjectError -> the driver
reports UNDECIDED (exit 2), never a violation.
"""
import re
import sys

TAG = "/*@ssw"
CLAUSES = {"assigns": "__CPROVER_assigns", "invariant": "__CPROVER_loop_invariant",
           "decreases": "__CPROVER_decreases"}


class InjectError(Exception):
    pass


def _blank(s):
    return "".join(c if c == "\n" else " " for c in s)


def _skip_ws_comments(t, i):
    n = len(t)
    while i < n:
        if t[i] in " \t\r\n":
            i += 1
        elif t.startswith("/*", i) and not t.startswith(TAG, i):
            j = t.find("*/", i + 2)
            if j < 0:
                raise InjectError("unterminated comment")
            i = j + 2
        elif t.startswith("//", i):
            j = t.find("\n", i)
            i = n if j < 0 else j + 1
        else:
            break
    return i


def _match_paren(t, i):
    """t[i] == '(' -> index just after the matching ')', skipping strings, chars, comments."""
    assert t[i] == "("
    depth = 0
    n = len(t)
    while i < n:
        c = t[i]
        if c == "(":
            depth += 1
        elif c == ")":
            depth -= 1
            if depth == 0:
                return i + 1
        elif c == '"' or c == "'":
            q = c
            i += 1
            while i < n and t[i] != q:
                if t[i] == "\\":
                    i += 1
                i += 1
        elif t.startswith("/*", i):
            j = t.find("*/", i + 2)
            i = j + 1
        elif t.startswith("//", i):
            j = t.find("\n", i)
            i = j
        i += 1
    raise InjectError("unbalanced parenthesis")


def _match_brace(t, i):
    assert t[i] == "{"
    depth = 0
    n = len(t)
    while i < n:
        c = t[i]
        if c == "{":
            depth += 1
        elif c == "}":
            depth -= 1
            if depth == 0:
                return i + 1
        elif c == '"' or c == "'":
            q = c
            i += 1
            while i < n and t[i] != q:
                if t[i] == "\\":
                    i += 1
                i += 1
        elif t.startswith("/*", i):
            j = t.find("*/", i + 2)
            i = j + 1
        elif t.startswith("//", i):
            j = t.find("\n", i)
            i = j
        i += 1
    raise InjectError("unbalanced brace")


def parse_clauses(body, where):
    """'assigns(a,b) invariant(x) ...' -> '__CPROVER_assigns(a,b) __CPROVER_loop_invariant(x) ...'"""
    out = []
    i = 0
    n = len(body)
    while True:
        while i < n and body[i] in " \t\r\n":
            i += 1
        if i >= n:
            break
        m = re.match(r"[A-Za-z_]+", body[i:])
        if not m or m.group(0) not in CLAUSES:
            raise InjectError("%s: unknown loop clause at %r" % (where, body[i:i + 30]))
        kw = m.group(0)
        i += len(kw)
        while i < n and body[i] in " \t\r\n":
            i += 1
        if i >= n or body[i] != "(":
            raise InjectError("%s: clause %s without parenthesis" % (where, kw))
        j = _match_paren(body, i)
        arg = " ".join(body[i:j].split())
        out.append(CLAUSES[kw] + arg)
        i = j
    if not out:
        raise InjectError("%s: empty loop annotation" % where)
    return " ".join(out)


def inject(text, fname="<text>", loops=None):
    """Returns (new_text, info) with info = {'loops': [names], 'ghost': n, 'field': n}.
    loops: None = inject every loop annotation; otherwise a set of names to inject
    (the others are blanked and reported under 'skipped')."""
    out = []
    info = {"loops": [], "ghost": 0, "field": 0, "skipped": []}
    pos = 0
    pending = []  # (insert_at_index_in_text, clause_text)
    while True:
        i = text.find(TAG, pos)
        if i < 0:
            break
        j = text.find("*/", i)
        if j < 0:
            raise InjectError("%s: unterminated annotation" % fname)
        line = text.count("\n", 0, i) + 1
        where = "%s:%d" % (fname, line)
        body = text[i + len(TAG):j]
        m = re.match(r"\s*(loop|ghost|field)\b", body)
        if not m:
            raise InjectError("%s: unknown annotation kind %r" % (where, body[:20]))
        kind = m.group(1)
        rest = body[m.end():]
        out.append(text[pos:i])
        if kind in ("ghost", "field"):
            # keep the text, blank the delimiters and the tag
            out.append(_blank(text[i:i + len(TAG) + m.end()]) + rest + "  ")
            info[kind] += 1
            pos = j + 2
            continue
        # loop
        m2 = re.match(r"\s*([A-Za-z_][A-Za-z0-9_.]*)", rest)
        if not m2:
            raise InjectError("%s: loop annotation without a name" % where)
        name = m2.group(1)
        clauses = parse_clauses(rest[m2.end():], where)
        out.append(_blank(text[i:j + 2]))
        pos = j + 2
        k = _skip_ws_comments(text, pos)
        mm = re.match(r"(for|while|do)\b", text[k:])
        if not mm:
            raise InjectError("%s: loop annotation %s is not followed by a loop head" % (where, name))
        kw = mm.group(1)
        if kw == "do":
            b = _skip_ws_comments(text, k + 2)
            if text[b] != "{":
                raise InjectError("%s: do-loop without braces" % where)
            e = _match_brace(text, b)
            w = _skip_ws_comments(text, e)
            if not text.startswith("while", w):
                raise InjectError("%s: do-loop without while" % where)
            p = _skip_ws_comments(text, w + 5)
            ins = _match_paren(text, p)
        else:
            p = _skip_ws_comments(text, k + len(kw))
            if text[p] != "(":
                raise InjectError("%s: loop head without parenthesis" % where)
            ins = _match_paren(text, p)
        if loops is not None and name not in loops:
            info["skipped"].append(name)
        else:
            if name in info["loops"]:
                raise InjectError("%s: duplicate loop annotation name %s" % (where, name))
            info["loops"].append(name)
            pending.append((ins, " " + clauses + " "))
    out.append(text[pos:])
    if not pending:
        return "".join(out), info
    # second pass: the blanking above preserved every offset, so insert positions are valid
    t = "".join(out)
    if len(t) != len(text):
        raise InjectError("%s: internal error, offsets moved" % fname)
    res = []
    last = 0
    for ins, cl in sorted(pending):
        res.append(t[last:ins])
        res.append(cl)
        last = ins
    res.append(t[last:])
    return "".join(res), info


def strip_for_diff(text):
    """The file with every annotation comment blanked: used to show that the scratch
    copy differs from the working-tree file only by the injected clauses."""
    return re.sub(r"/\*@ssw.*?\*/", lambda m: _blank(m.group(0)), text, flags=re.S)


if __name__ == "__main__":
    src = open(sys.argv[1]).read()
    new, info = inject(src, sys.argv[1])
    sys.stderr.write(repr(info) + "\n")
    sys.stdout.write(new)
