/* Contracts for the JSON formatting helpers of src/decoder.c (C14).  Included AFTER the source.
 * snprintf is ASSUMED: its return value is a ghost length that depends only on the call (verif_snlen, >= 22), it writes
 * at most size bytes.  The time clause of the property is a CALLER obligation of that contract: the doubles handed to
 * snprintf must be offset + frame / frame-rate. */
#ifndef JSON_CONTRACTS_H
#define JSON_CONTRACTS_H
#ifdef SSW_CBMC
int ssw_snprintf4(char *buf, size_t size, const char *fmt, double b, double d, double p, const char *t)
__CPROVER_requires(buf == NULL || __CPROVER_w_ok(buf, size))
/* (the time clause "frame / frame rate + offset" was tried as a caller obligation here: equivalence of two double
 * dividers does not finish on any back end; it is decided by the native enumeration native/json_times.c instead) */
__CPROVER_requires(t != NULL)
__CPROVER_assigns(buf != NULL && size > 0: __CPROVER_object_whole(buf))
__CPROVER_ensures(__CPROVER_return_value == verif_snlen)
;
/* the escaped copy of a word: ASSUMED here (a fresh NUL-terminated string; its content is exercised by the native
 * end-to-end run, which parses the JSON line with an independent parser for words containing quotes and backslashes) */
static char *json_escape(const char *str)
__CPROVER_requires(str != NULL)
__CPROVER_assigns()
__CPROVER_ensures(__CPROVER_is_fresh(__CPROVER_return_value, 1))
;
double logmath_exp(logmath_t *lmath, int logb_p)
__CPROVER_requires(1) __CPROVER_assigns() __CPROVER_ensures(__CPROVER_return_value >= 0.0);

/* one segment: sizing pass (outptr == NULL) and writing pass return the same length; the writing pass stays inside
 * [outptr, outptr + len) and terminates the item with "}" NUL */
static int format_seg(char *outptr, int len, seg_iter_t *seg, double utt_start, int frate, logmath_t *lmath)
__CPROVER_requires(__CPROVER_is_fresh(seg, sizeof(*seg)) && 22 <= verif_snlen && verif_snlen <= 4000)
__CPROVER_requires(outptr == NULL ? len == 0 : (len >= verif_snlen + 2 && len <= 5000 && __CPROVER_is_fresh(outptr, 5000)))
__CPROVER_requires(frate >= 1 && frate <= 1000 && seg->ef >= -1 && seg->ef <= 1000000 && 0 <= seg->sf && seg->sf <= seg->ef + 1)
__CPROVER_requires(utt_start >= 0.0 && utt_start <= 1.0e9)
__CPROVER_requires(verif_js_start == utt_start && verif_js_sf == seg->sf && verif_js_dur == seg->ef + 1 - seg->sf && verif_js_frate == frate)
__CPROVER_assigns(outptr != NULL: __CPROVER_object_whole(outptr))
__CPROVER_ensures(__CPROVER_return_value == verif_snlen + 1)
__CPROVER_ensures(IMP(outptr != NULL, outptr[verif_snlen] == '}' && outptr[verif_snlen + 1] == '\0'))
;
#endif
#endif

#if defined(SSW_CBMC) && defined(VERIF_JSON_EMPTY)
/* ---- the whole line for an EMPTY result (no segments, no alignment): loop-free ---- */
static int format_hyp(char *outptr, int len, decoder_t *decoder, double start, double duration)
__CPROVER_requires(outptr == NULL || __CPROVER_w_ok(outptr, len))
__CPROVER_assigns(outptr != NULL && len > 0: __CPROVER_object_whole(outptr))
__CPROVER_ensures(__CPROVER_return_value == verif_snlen)
;
seg_iter_t *decoder_seg_iter(decoder_t *d)
__CPROVER_requires(d != NULL) __CPROVER_assigns() __CPROVER_ensures(__CPROVER_return_value == NULL);
long config_int(config_t *config, const char *name)
__CPROVER_requires(1) __CPROVER_assigns() __CPROVER_ensures(__CPROVER_return_value == 100);
/* "exactly as long as the buffer allocated for it ... stays valid for empty results": the line is hyp + ,"w":[ + ]}\n,
 * its terminating NUL is the last byte of the block, and no byte is written outside the block (pointer obligations) */
const char *decoder_result_json(decoder_t *d, double start, int align_level)
__CPROVER_requires(__CPROVER_is_fresh(d, sizeof(*d)) && __CPROVER_is_fresh(d->acmod, sizeof(*d->acmod)) && d->json_result == NULL && align_level == 0)
__CPROVER_requires(22 <= verif_snlen && verif_snlen <= 4000 && 0 <= d->acmod->output_frame && d->acmod->output_frame <= 1000000)
__CPROVER_assigns(d->json_result)
__CPROVER_ensures(__CPROVER_return_value != NULL && __CPROVER_return_value == d->json_result)
__CPROVER_ensures(__CPROVER_OBJECT_SIZE(d->json_result) == (size_t)verif_snlen + 6 + 4)
__CPROVER_ensures(d->json_result[verif_snlen + 6] == ']' && d->json_result[verif_snlen + 7] == '}' && d->json_result[verif_snlen + 8] == '\n' && d->json_result[verif_snlen + 9] == '\0')
;
#endif
