/* Contracts for src/s3file.c (C17, C10).  Included AFTER the source.
 * File view: a buffer of verif_flen bytes (ghost, constant); the read position is s->ptr inside it.  Pointer facts are
 * written as same_object + "p == base + offset(p)" so that they survive a sequence of calls (DESIGN 2.5). */
#ifndef S3FILE_CONTRACTS_H
#define S3FILE_CONTRACTS_H
#ifndef S3_MAXLEN
#define S3_MAXLEN 1000000
#endif
#ifdef SSW_CBMC
#define S3_OFF(p) ((size_t)__CPROVER_POINTER_OFFSET(p))
#define S3_PTR_OK(s) (__CPROVER_same_object(s->ptr, s->buf) && S3_OFF(s->ptr) <= verif_flen && s->ptr == (const char *)s->buf + S3_OFF(s->ptr) \
    && s->end == (const char *)s->buf + verif_flen)
#define WF_S3(s) __CPROVER_is_fresh(s, sizeof(*s)) && 1 <= verif_flen && verif_flen <= S3_MAXLEN && __CPROVER_is_fresh(s->buf, verif_flen) && S3_PTR_OK(s)
#define S3_OLDOFF(s) S3_OFF(__CPROVER_old(s->ptr))
#define S3_ELSZ_OK(e) ((e) == 1 || (e) == 2 || (e) == 4 || (e) == 8)
#ifdef S3_ELSZ
#undef S3_ELSZ_OK
#define S3_ELSZ_OK(e) ((e) == S3_ELSZ)   /* element size concrete per run (division by a symbolic size does not finish) */
#endif

const char *s3file_nextline(s3file_t *s)
__CPROVER_requires(WF_S3(s))
__CPROVER_assigns(s->ptr)
/* never moves outside [old ptr, end]; NULL exactly at end of data; the line returned starts at the old position */
__CPROVER_ensures(S3_PTR_OK(s) && S3_OFF(s->ptr) >= S3_OLDOFF(s))
__CPROVER_ensures((__CPROVER_return_value == NULL) == (S3_OLDOFF(s) == verif_flen))
__CPROVER_ensures(IMP(__CPROVER_return_value != NULL, __CPROVER_return_value == __CPROVER_old(s->ptr) && S3_OFF(s->ptr) > S3_OLDOFF(s)))
;

/* word scanning inside the current line [*ptr, s->ptr) */
const char *s3file_nextword(s3file_t *s, const char **ptr)
__CPROVER_requires(WF_S3(s) && __CPROVER_is_fresh(ptr, sizeof(*ptr)))
__CPROVER_requires(__CPROVER_same_object(*ptr, s->buf) && S3_OFF(*ptr) <= S3_OFF(s->ptr) && *ptr == (const char *)s->buf + S3_OFF(*ptr))
__CPROVER_assigns(*ptr)
__CPROVER_ensures(__CPROVER_same_object(*ptr, s->buf) && S3_OFF(*ptr) >= S3_OFF(__CPROVER_old(*ptr)) && S3_OFF(*ptr) <= S3_OFF(s->ptr)
                  && *ptr == (const char *)s->buf + S3_OFF(*ptr))
__CPROVER_ensures(IMP(__CPROVER_return_value != NULL, __CPROVER_same_object(__CPROVER_return_value, s->buf)
                      && S3_OFF(__CPROVER_return_value) >= S3_OFF(__CPROVER_old(*ptr)) && S3_OFF(__CPROVER_return_value) < S3_OFF(*ptr)))
;

/* checksum accumulation reads n_el elements of the block it is given (half of each element for el_sz == 8) */
static uint32 chksum_accum(const void *buf, size_t el_sz, size_t n_el, uint32 sum)
#ifdef S3_CHK_BOUND
__CPROVER_requires((el_sz == 1 || el_sz == 2 || el_sz == 4 || el_sz == 8) && n_el <= 6 && __CPROVER_is_fresh(buf, 48))
#else
__CPROVER_requires(S3_ELSZ_OK(el_sz) && n_el <= S3_MAXLEN && __CPROVER_r_ok(buf, el_sz * n_el))
#endif
__CPROVER_assigns()
__CPROVER_ensures(1)
;

size_t s3file_get(void *buf, size_t el_sz, size_t n_el, s3file_t *s)
__CPROVER_requires(WF_S3(s) && S3_ELSZ_OK(el_sz) && n_el <= S3_MAXLEN)
#ifdef S3_GET_ENFORCE
__CPROVER_requires(verif_bufsz <= 8 * S3_MAXLEN && el_sz * n_el <= verif_bufsz && __CPROVER_is_fresh(buf, verif_bufsz))
#else
/* at call sites: the destination is a writable block of the requested size (it is a local or a fresh allocation,
 * hence distinct from the file: by inspection) */
__CPROVER_requires(__CPROVER_w_ok(buf, el_sz * n_el))
#endif
__CPROVER_requires(s->do_swap == 0 || s->do_swap == 1)
__CPROVER_assigns(s->ptr, s->chksum, __CPROVER_object_whole(buf))
/* reads exactly el_sz * ret bytes, all of them inside the file; a short file yields a short count, never an over-read */
__CPROVER_ensures(__CPROVER_return_value <= n_el && S3_PTR_OK(s))
__CPROVER_ensures(S3_OFF(s->ptr) == S3_OLDOFF(s) + el_sz * __CPROVER_return_value)
__CPROVER_ensures(IMP(verif_flen - S3_OLDOFF(s) >= el_sz * n_el, __CPROVER_return_value == n_el))
__CPROVER_ensures(IMP(verif_flen - S3_OLDOFF(s) < el_sz * n_el, (__CPROVER_return_value + 1) * el_sz > verif_flen - S3_OLDOFF(s)))
;

long s3file_get_1d(void **buf, size_t el_sz, uint32 *n_el, s3file_t *s)
__CPROVER_requires(WF_S3(s) && S3_ELSZ_OK(el_sz) && __CPROVER_is_fresh(buf, sizeof(*buf)) && __CPROVER_is_fresh(n_el, sizeof(*n_el)))
__CPROVER_requires((s->do_swap == 0 || s->do_swap == 1) && verif_alloc_limit == verif_flen)
__CPROVER_assigns(s->ptr, s->chksum, *buf, *n_el)
/* damaged counts are reported through the return value: no exit, no allocation beyond the file size (obligations of
 * the exit and allocator stubs), and on success the whole array came from inside the file */
__CPROVER_ensures(__CPROVER_return_value == -1 || (__CPROVER_return_value == (long)*n_el && *n_el > 0))
__CPROVER_ensures(S3_PTR_OK(s))
__CPROVER_ensures(IMP(__CPROVER_return_value != -1, S3_OFF(s->ptr) == S3_OLDOFF(s) + 4 + el_sz * (size_t)*n_el
                      && __CPROVER_OBJECT_SIZE(*buf) == el_sz * (size_t)*n_el))
;

long s3file_get_2d(void ***arr, size_t e_sz, uint32 *d1, uint32 *d2, s3file_t *s)
__CPROVER_requires(WF_S3(s) && S3_ELSZ_OK(e_sz) && __CPROVER_is_fresh(arr, sizeof(*arr)) && __CPROVER_is_fresh(d1, sizeof(*d1)) && __CPROVER_is_fresh(d2, sizeof(*d2)))
__CPROVER_requires((s->do_swap == 0 || s->do_swap == 1) && verif_alloc_limit == verif_flen)
__CPROVER_assigns(s->ptr, s->chksum, *arr, *d1, *d2)
__CPROVER_ensures(__CPROVER_return_value == -1 || (__CPROVER_return_value > 0 && (size_t)*d1 * *d2 == (size_t)__CPROVER_return_value))
__CPROVER_ensures(S3_PTR_OK(s))
;

long s3file_get_3d(void ****arr, size_t e_sz, uint32 *d1, uint32 *d2, uint32 *d3, s3file_t *s)
__CPROVER_requires(WF_S3(s) && S3_ELSZ_OK(e_sz) && __CPROVER_is_fresh(arr, sizeof(*arr)) && __CPROVER_is_fresh(d1, sizeof(*d1)) && __CPROVER_is_fresh(d2, sizeof(*d2)) && __CPROVER_is_fresh(d3, sizeof(*d3)))
__CPROVER_requires((s->do_swap == 0 || s->do_swap == 1) && verif_alloc_limit == verif_flen)
__CPROVER_assigns(s->ptr, s->chksum, *arr, *d1, *d2, *d3)
__CPROVER_ensures(__CPROVER_return_value == -1 || __CPROVER_return_value > 0)
__CPROVER_ensures(S3_PTR_OK(s))
;

int s3file_verify_chksum(s3file_t *s)
__CPROVER_requires(WF_S3(s) && (s->do_swap == 0 || s->do_swap == 1))
__CPROVER_assigns(s->ptr, s->chksum, s->do_chksum)
__CPROVER_ensures(S3_PTR_OK(s) && s->do_chksum == 0)
__CPROVER_ensures(__CPROVER_return_value == 0 || __CPROVER_return_value == -1)
__CPROVER_ensures(IMP(__CPROVER_old(s->do_chksum) && verif_flen - S3_OLDOFF(s) < 4, __CPROVER_return_value == -1))
;
#endif
#endif
