/* Contracts for src/hmm.c (C02, C18, part of C01): one Viterbi step of a left-to-right HMM is the exact, clamped
 * max-plus step.  Included AFTER the source.  All specification macros are plain C so that the native replay
 * harness evaluates the same expressions. */
#ifndef HMM_CONTRACTS_H
#define HMM_CONTRACTS_H

#define HW WORST_SCORE
#define HMAX2(a, b) ((a) > (b) ? (a) : (b))
#define HMAX3(a, b, c) HMAX2(HMAX2(a, b), c)
#define HCL(x) ((x) < HW ? HW : (x))
#define HNOARC INT_MIN
/* a skip arc exists iff its stored cost is better than TMAT_WORST_SCORE (3-state code) */
#define HSKIP(t, cand) ((t) < 255 ? (cand) : HNOARC)

/* representation invariant of an HMM's scores (WF_HMM): a state score is WORST_SCORE (inactive) or in
 * [WORST_SCORE + 2^20, 0]; activity is prefix-closed; the exit score is inactive while state 1 is. */
#define H_SCORE_OK(x) (((x) == HW || (x) >= HW + 0x100000) && (x) <= 0)

/* ---- 3-state, non-multiplex: candidates with s_i = score_i - senscore_i (senscore >= 0 is a negated log) ---- */
#define P3_NEW0(s0, t00) HCL((s0) - (t00))
#define P3_NEW1(s0, s1, t01, t11) HCL(HMAX2((s1) - (t11), (s0) - (t01)))
#define P3_NEW2(s0, s1, s2, t02, t12, t22) HCL(HMAX3((s2) - (t22), (s1) - (t12), HSKIP(t02, (s0) - (t02))))
#define P3_OUT(s1, s2, t13, t23) HCL(HMAX2((s2) - (t23), HSKIP(t13, (s1) - (t13))))
/* history of the winner: the new history of a state is the old history of a predecessor whose candidate attains the max */
#define P3_HIST1(nh1, hin, h1, s0, s1, t01, t11) \
    (((nh1) == (h1) && (s1) - (t11) >= (s0) - (t01)) || ((nh1) == (hin) && (s0) - (t01) >= (s1) - (t11)))
#define P3_HIST2(nh2, hin, h1, h2, s0, s1, s2, t02, t12, t22) \
    (((nh2) == (h2) && (s2) - (t22) >= (s1) - (t12) && (s2) - (t22) >= HSKIP(t02, (s0) - (t02))) \
     || ((nh2) == (h1) && (s1) - (t12) >= (s2) - (t22) && (s1) - (t12) >= HSKIP(t02, (s0) - (t02))) \
     || ((nh2) == (hin) && (t02) < 255 && (s0) - (t02) >= (s2) - (t22) && (s0) - (t02) >= (s1) - (t12)))
#define P3_HISTOUT(nho, h1, h2, s1, s2, t13, t23) \
    (((nho) == (h2) && (s2) - (t23) >= HSKIP(t13, (s1) - (t13))) || ((nho) == (h1) && (t13) < 255 && (s1) - (t13) >= (s2) - (t23)) \
     || ((nho) == (h1) && (s2) - (t23) <= HNOARC))


/* ---- 3-state, multiplex (word-initial phones: one senone-sequence id per state; BAD_SSID marks an inactive state) ---- */
#define HACT(act, v) ((act) ? (v) : HW)
#define M3_NEW0(s0, t00) HCL((s0) - (t00))
#define M3_NEW1(s0, a1, s1, t01, t11) HCL(HMAX2(HACT(a1, (s1) - (t11)), (s0) - (t01)))
#define M3_NEW2(s0, a1, s1, a2, s2, t02, t12, t22) HCL(HMAX3(HACT(a2, (s2) - (t22)), HACT(a1, (s1) - (t12)), HSKIP(t02, (s0) - (t02))))
#define M3_OUT(a1, s1, a2, s2, t13, t23) HCL(HMAX2(HACT(a2, (s2) - (t23)), (a1) ? HSKIP(t13, (s1) - (t13)) : HW))
#define H3M_SSID_OK(x) ((x) < 2 || (x) == BAD_SSID)

#ifdef SSW_CBMC
/* entering an HMM: exactly the entry state's score / back-pointer and the activity frame change (used as an assumed
 * contract by the word-arc groups of C01; proved here on the real body) */
void hmm_enter(hmm_t *h, int32 score, int32 histid, int frame)
__CPROVER_requires(__CPROVER_is_fresh(h, sizeof(*h)))
__CPROVER_assigns(h->score[0], h->history[0], h->frame)
__CPROVER_ensures(h->score[0] == score && h->history[0] == histid && h->frame == frame)
;
#define H3_TP(i, j) (hmm->ctx->tp[0][0][(i)*4 + (j)])
#define H3_SEN(i) (hmm->ctx->senscore[hmm->senid[i]])
/* ghost snapshot of s_i = score_i - senscore_i in the pre-state (tied in requires; __CPROVER_old cannot track it) */
#define H3_S(i) verif_hs[i]
#define H3_H(i) __CPROVER_old(hmm->history[i])
#define HMM3_FRESH(hmm) \
    __CPROVER_is_fresh(hmm, sizeof(*hmm)) && __CPROVER_is_fresh(hmm->ctx, sizeof(*hmm->ctx)) \
    && __CPROVER_is_fresh(hmm->ctx->senscore, 8 * sizeof(int16)) \
    && __CPROVER_is_fresh(hmm->ctx->tp, 1 * sizeof(uint8 **)) && __CPROVER_is_fresh(hmm->ctx->tp[0], 1 * sizeof(uint8 *)) \
    && __CPROVER_is_fresh(hmm->ctx->tp[0][0], 12) \
    && hmm->tmatid == 0 && hmm->senid[0] < 8 && hmm->senid[1] < 8 && hmm->senid[2] < 8 \
    && H3_SEN(0) >= 0 && H3_SEN(1) >= 0 && H3_SEN(2) >= 0

static int32 hmm_vit_eval_3st_lr(hmm_t *hmm)
__CPROVER_requires(HMM3_FRESH(hmm))
__CPROVER_requires(hmm->score[0] >= HW && hmm->score[0] <= 0 && H_SCORE_OK(hmm->score[1]) && H_SCORE_OK(hmm->score[2]))
__CPROVER_requires(hmm->score[2] == HW || hmm->score[1] != HW)
__CPROVER_requires(hmm->score[1] != HW || hmm->out_score == HW)
__CPROVER_requires(verif_hs[0] == hmm->score[0] - H3_SEN(0) && verif_hs[1] == hmm->score[1] - H3_SEN(1) && verif_hs[2] == hmm->score[2] - H3_SEN(2))
__CPROVER_assigns(hmm->score[0], hmm->score[1], hmm->score[2], hmm->history[1], hmm->history[2], hmm->out_score, hmm->out_history, hmm->bestscore)
/* exact clamped max-plus step, each transition weight used once */
__CPROVER_ensures(hmm->score[0] == P3_NEW0(H3_S(0), H3_TP(0, 0)))
__CPROVER_ensures(hmm->score[1] == P3_NEW1(H3_S(0), H3_S(1), H3_TP(0, 1), H3_TP(1, 1)))
__CPROVER_ensures(hmm->score[2] == P3_NEW2(H3_S(0), H3_S(1), H3_S(2), H3_TP(0, 2), H3_TP(1, 2), H3_TP(2, 2)))
__CPROVER_ensures(IMP(__CPROVER_old(hmm->score[1]) != HW, hmm->out_score == P3_OUT(H3_S(1), H3_S(2), H3_TP(1, 3), H3_TP(2, 3))))
__CPROVER_ensures(IMP(__CPROVER_old(hmm->score[1]) == HW, hmm->out_score == HW))
__CPROVER_ensures(__CPROVER_return_value == hmm->bestscore)
__CPROVER_ensures(hmm->bestscore == HMAX2(HMAX2(hmm->score[0], hmm->score[1]), HMAX2(hmm->score[2], hmm->out_score)))
/* back-pointers follow an arg-max predecessor; history ids are only copied between the HMM's own slots */
__CPROVER_ensures(hmm->history[0] == H3_H(0))
__CPROVER_ensures(P3_HIST1(hmm->history[1], H3_H(0), H3_H(1), H3_S(0), H3_S(1), H3_TP(0, 1), H3_TP(1, 1)))
__CPROVER_ensures(P3_HIST2(hmm->history[2], H3_H(0), H3_H(1), H3_H(2), H3_S(0), H3_S(1), H3_S(2), H3_TP(0, 2), H3_TP(1, 2), H3_TP(2, 2)))
__CPROVER_ensures(IMP(__CPROVER_old(hmm->score[1]) != HW,
    P3_HISTOUT(hmm->out_history, H3_H(1), H3_H(2), H3_S(1), H3_S(2), H3_TP(1, 3), H3_TP(2, 3))))
/* closure of the back-pointer slots (what carries the history-source invariant HIST_SRC of the word-arc groups through
 * an evaluation): every slot afterwards holds a value some slot of this HMM held before */
__CPROVER_ensures(hmm->history[1] == H3_H(0) || hmm->history[1] == H3_H(1))
__CPROVER_ensures(hmm->history[2] == H3_H(0) || hmm->history[2] == H3_H(1) || hmm->history[2] == H3_H(2))
__CPROVER_ensures(hmm->out_history == H3_H(1) || hmm->out_history == H3_H(2) || hmm->out_history == __CPROVER_old(hmm->out_history))
/* WF_HMM re-established: scores never wrap, stay clamped in [WORST_SCORE, 0] */
__CPROVER_ensures(hmm->score[0] >= HW && hmm->score[0] <= 0 && hmm->score[1] >= HW && hmm->score[1] <= 0 && hmm->score[2] >= HW && hmm->score[2] <= 0)
__CPROVER_ensures(hmm->out_score >= HW && hmm->out_score <= 0)
;

#define H3M_SENID(i) (hmm->ctx->sseq[hmm->senid[i]][i])
#define H3M_SEN(i) (hmm->ctx->senscore[H3M_SENID(i)])
#define H3M_A(i) (verif_hact[i])
#define HMM3M_FRESH(hmm) \
    __CPROVER_is_fresh(hmm, sizeof(*hmm)) && __CPROVER_is_fresh(hmm->ctx, sizeof(*hmm->ctx)) \
    && __CPROVER_is_fresh(hmm->ctx->senscore, 8 * sizeof(int16)) \
    && __CPROVER_is_fresh(hmm->ctx->tp, 1 * sizeof(uint8 **)) && __CPROVER_is_fresh(hmm->ctx->tp[0], 1 * sizeof(uint8 *)) \
    && __CPROVER_is_fresh(hmm->ctx->tp[0][0], 12) \
    && __CPROVER_is_fresh(hmm->ctx->sseq, 2 * sizeof(uint16 *)) \
    && __CPROVER_is_fresh(hmm->ctx->sseq[0], 3 * sizeof(uint16)) && __CPROVER_is_fresh(hmm->ctx->sseq[1], 3 * sizeof(uint16)) \
    && hmm->tmatid == 0 && hmm->senid[0] < 2 && H3M_SSID_OK(hmm->senid[1]) && H3M_SSID_OK(hmm->senid[2]) \
    && hmm->ctx->sseq[0][0] < 8 && hmm->ctx->sseq[0][1] < 8 && hmm->ctx->sseq[0][2] < 8 \
    && hmm->ctx->sseq[1][0] < 8 && hmm->ctx->sseq[1][1] < 8 && hmm->ctx->sseq[1][2] < 8 \
    && hmm->ctx->senscore[0] >= 0 && hmm->ctx->senscore[1] >= 0 && hmm->ctx->senscore[2] >= 0 && hmm->ctx->senscore[3] >= 0 \
    && hmm->ctx->senscore[4] >= 0 && hmm->ctx->senscore[5] >= 0 && hmm->ctx->senscore[6] >= 0 && hmm->ctx->senscore[7] >= 0

static int32 hmm_vit_eval_3st_lr_mpx(hmm_t *hmm)
__CPROVER_requires(HMM3M_FRESH(hmm))
__CPROVER_requires(hmm->score[0] >= HW && hmm->score[0] <= 0 && H_SCORE_OK(hmm->score[1]) && H_SCORE_OK(hmm->score[2]))
/* a state with a sequence id is active with a real score; a state without one is inactive */
__CPROVER_requires((hmm->senid[1] == BAD_SSID) == (hmm->score[1] == HW) && (hmm->senid[2] == BAD_SSID) == (hmm->score[2] == HW))
__CPROVER_requires(verif_hact[1] == (hmm->senid[1] != BAD_SSID) && verif_hact[2] == (hmm->senid[2] != BAD_SSID))
__CPROVER_requires(verif_hs[0] == hmm->score[0] - H3M_SEN(0))
__CPROVER_requires(IMP(verif_hact[1], verif_hs[1] == hmm->score[1] - H3M_SEN(1)) && IMP(verif_hact[2], verif_hs[2] == hmm->score[2] - H3M_SEN(2)))
__CPROVER_assigns(hmm->score[0], hmm->score[1], hmm->score[2], hmm->history[1], hmm->history[2], hmm->out_score, hmm->out_history,
                  hmm->bestscore, hmm->senid[1], hmm->senid[2])
__CPROVER_ensures(hmm->score[0] == M3_NEW0(H3_S(0), H3_TP(0, 0)))
__CPROVER_ensures(hmm->score[1] == M3_NEW1(H3_S(0), H3M_A(1), H3_S(1), H3_TP(0, 1), H3_TP(1, 1)))
__CPROVER_ensures(hmm->score[2] == M3_NEW2(H3_S(0), H3M_A(1), H3_S(1), H3M_A(2), H3_S(2), H3_TP(0, 2), H3_TP(1, 2), H3_TP(2, 2)))
__CPROVER_ensures(hmm->out_score == M3_OUT(H3M_A(1), H3_S(1), H3M_A(2), H3_S(2), H3_TP(1, 3), H3_TP(2, 3)))
__CPROVER_ensures(__CPROVER_return_value == hmm->bestscore)
__CPROVER_ensures(hmm->bestscore == HMAX2(HMAX2(hmm->score[0], hmm->score[1]), HMAX2(hmm->score[2], hmm->out_score)))
/* history / sequence ids are only copied forward between the HMM's own slots, together */
__CPROVER_ensures(hmm->history[0] == H3_H(0) && hmm->senid[0] == __CPROVER_old(hmm->senid[0]))
__CPROVER_ensures((hmm->history[1] == H3_H(1) && hmm->senid[1] == __CPROVER_old(hmm->senid[1])) || (hmm->history[1] == H3_H(0) && hmm->senid[1] == __CPROVER_old(hmm->senid[0])))
__CPROVER_ensures((hmm->history[2] == H3_H(2) && hmm->senid[2] == __CPROVER_old(hmm->senid[2])) || (hmm->history[2] == H3_H(1) && hmm->senid[2] == __CPROVER_old(hmm->senid[1]))
                  || (hmm->history[2] == H3_H(0) && hmm->senid[2] == __CPROVER_old(hmm->senid[0])))
__CPROVER_ensures(hmm->out_history == H3_H(1) || hmm->out_history == H3_H(2))
/* WF re-established: an active state has a sequence id; scores clamped, never wrapped */
__CPROVER_ensures(IMP(hmm->score[1] > HW, hmm->senid[1] != BAD_SSID) && IMP(hmm->score[2] > HW, hmm->senid[2] != BAD_SSID))
__CPROVER_ensures(hmm->score[0] >= HW && hmm->score[0] <= 0 && hmm->score[1] >= HW && hmm->score[1] <= 0 && hmm->score[2] >= HW && hmm->score[2] <= 0)
__CPROVER_ensures(hmm->out_score >= HW && hmm->out_score <= 0)
;


/* a cleared HMM (hmm_init, lextree deactivation): every score inactive, every back-pointer slot -1, no frame -- the base
 * case of the history-source invariant HIST_SRC (no slot names a history entry).  n_emit_state <= HMM_MAX_NSTATE is the
 * size of the arrays, so unwinding the loop 5 times is complete. */
void hmm_clear(hmm_t *h)
__CPROVER_requires(__CPROVER_is_fresh(h, sizeof(*h)) && h->n_emit_state >= 1 && h->n_emit_state <= HMM_MAX_NSTATE)
__CPROVER_requires(0 <= verif_k && verif_k < HMM_MAX_NSTATE)
__CPROVER_assigns(h->score[0], h->score[1], h->score[2], h->score[3], h->score[4], h->history[0], h->history[1], h->history[2], h->history[3], h->history[4],
                  h->out_score, h->out_history, h->bestscore, h->frame)
__CPROVER_ensures(IMP(verif_k < h->n_emit_state, h->score[verif_k] == HW && h->history[verif_k] == -1))
__CPROVER_ensures(h->out_score == HW && h->out_history == -1 && h->bestscore == HW && h->frame == -1)
;
/* renormalisation (state aligner): active scores are shifted by exactly bestscr, inactive ones stay inactive, nothing wraps */
int32 verif_nsnap;
void hmm_normalize(hmm_t *h, int32 bestscr)
__CPROVER_requires(__CPROVER_is_fresh(h, sizeof(*h)) && h->n_emit_state >= 1 && h->n_emit_state <= HMM_MAX_NSTATE)
__CPROVER_requires(0 <= verif_k && verif_k < h->n_emit_state && verif_nsnap == h->score[verif_k])
__CPROVER_requires(bestscr >= HW && bestscr <= 0 && h->out_score >= HW && h->out_score <= 0)
__CPROVER_requires(h->score[0] >= HW && h->score[0] <= 0 && h->score[1] >= HW && h->score[1] <= 0 && h->score[2] >= HW && h->score[2] <= 0
                   && h->score[3] >= HW && h->score[3] <= 0 && h->score[4] >= HW && h->score[4] <= 0)
__CPROVER_assigns(h->score[0], h->score[1], h->score[2], h->score[3], h->score[4], h->out_score)
__CPROVER_ensures(h->score[verif_k] == (verif_nsnap > HW ? verif_nsnap - bestscr : HW))
__CPROVER_ensures(h->out_score == (__CPROVER_old(h->out_score) > HW ? __CPROVER_old(h->out_score) - bestscr : HW))
;
/* never reached for 3-state HMMs: a call would violate these (unsatisfiable) preconditions */
static int32 hmm_vit_eval_5st_lr(hmm_t *hmm) __CPROVER_requires(0) __CPROVER_assigns() __CPROVER_ensures(1);
static int32 hmm_vit_eval_5st_lr_mpx(hmm_t *hmm) __CPROVER_requires(0) __CPROVER_assigns() __CPROVER_ensures(1);
static int32 hmm_vit_eval_anytopo(hmm_t *hmm) __CPROVER_requires(0) __CPROVER_assigns() __CPROVER_ensures(1);
/* the dispatcher, for the 3-state topologies of the shipped models: it reaches exactly one of the two steps proved above
 * (never the 5-state or any-topology code) and hands their result through.  Callees replaced by their contracts. */
/* (two case groups: the fresh-object predicates of the two callees cannot sit under one conditional) */
int32 hmm_vit_eval(hmm_t *hmm)
#ifdef VERIF_HVE_MPX
__CPROVER_requires(HMM3M_FRESH(hmm))
__CPROVER_requires(hmm->mpx != 0 && hmm->n_emit_state == 3)
__CPROVER_requires(hmm->score[0] >= HW && hmm->score[0] <= 0 && H_SCORE_OK(hmm->score[1]) && H_SCORE_OK(hmm->score[2]))
__CPROVER_requires((hmm->senid[1] == BAD_SSID) == (hmm->score[1] == HW) && (hmm->senid[2] == BAD_SSID) == (hmm->score[2] == HW))
__CPROVER_requires(verif_hact[1] == (hmm->senid[1] != BAD_SSID) && verif_hact[2] == (hmm->senid[2] != BAD_SSID))
__CPROVER_requires(verif_hs[0] == hmm->score[0] - H3M_SEN(0))
__CPROVER_requires(IMP(verif_hact[1], verif_hs[1] == hmm->score[1] - H3M_SEN(1)) && IMP(verif_hact[2], verif_hs[2] == hmm->score[2] - H3M_SEN(2)))
#else
__CPROVER_requires(HMM3_FRESH(hmm))
__CPROVER_requires(hmm->mpx == 0 && hmm->n_emit_state == 3)
__CPROVER_requires(hmm->score[0] >= HW && hmm->score[0] <= 0 && H_SCORE_OK(hmm->score[1]) && H_SCORE_OK(hmm->score[2]))
__CPROVER_requires(hmm->score[2] == HW || hmm->score[1] != HW)
__CPROVER_requires(hmm->score[1] != HW || hmm->out_score == HW)
__CPROVER_requires(verif_hs[0] == hmm->score[0] - H3_SEN(0) && verif_hs[1] == hmm->score[1] - H3_SEN(1) && verif_hs[2] == hmm->score[2] - H3_SEN(2))
#endif
__CPROVER_assigns(hmm->score[0], hmm->score[1], hmm->score[2], hmm->history[1], hmm->history[2], hmm->out_score, hmm->out_history,
                  hmm->bestscore, hmm->senid[1], hmm->senid[2])
__CPROVER_ensures(__CPROVER_return_value == hmm->bestscore)
__CPROVER_ensures(hmm->bestscore == HMAX2(HMAX2(hmm->score[0], hmm->score[1]), HMAX2(hmm->score[2], hmm->out_score)))
__CPROVER_ensures(hmm->score[0] >= HW && hmm->score[0] <= 0 && hmm->score[1] >= HW && hmm->score[1] <= 0 && hmm->score[2] >= HW && hmm->score[2] <= 0)
__CPROVER_ensures(hmm->out_score >= HW && hmm->out_score <= 0)
/* back-pointer slots are closed under an evaluation (carries HIST_SRC of the word-arc groups) */
__CPROVER_ensures(hmm->history[0] == H3_H(0))
__CPROVER_ensures(hmm->history[1] == H3_H(0) || hmm->history[1] == H3_H(1))
__CPROVER_ensures(hmm->history[2] == H3_H(0) || hmm->history[2] == H3_H(1) || hmm->history[2] == H3_H(2))
__CPROVER_ensures(hmm->out_history == H3_H(1) || hmm->out_history == H3_H(2) || hmm->out_history == __CPROVER_old(hmm->out_history))
;
#endif
#endif
