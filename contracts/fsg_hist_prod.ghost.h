/* Producer-side ghost view of the history table and the arc iterator (DESIGN B 2.11, 2.12, 4/C01).
 * Included BEFORE src/fsg_search.c.  Two cells: verif_cell0 is entry 0 (the dummy, link always NULL), verif_cell any
 * other entry (link always &verif_lcell): exactly the table invariant "only entry 0 has no link".
 * The path-connectivity invariant of the table is the PRECONDITION of fsg_history_entry_add below: the link added after
 * predecessor pred leaves the state that entry(pred) entered.  Proving that precondition at every call site is the
 * producer side of C01. */
#ifndef FSG_HIST_PROD_GHOST_H
#define FSG_HIST_PROD_GHOST_H
#include <soundswallower/fsg_history.h>
#include <soundswallower/err.h>
#include <soundswallower/hmm.h>
#ifdef SSW_CBMC
/* ---- ghost view of the history table: two cells (entry 0 has no link) ---- */
fsg_hist_entry_t verif_cell, verif_cell0; int32 verif_cell_id; fsg_link_t verif_lcell;
int32 verif_hist_n; fsg_history_t *verif_h; fsg_model_t *verif_fsg;
fsg_hist_entry_t verif_wit; fsg_link_t verif_wlink;   /* (consumer-side witness, unused here; named by an always-injected ghost statement) */
/* ---- ghost view of the arc iterator ---- */
fsg_link_t verif_acell; int32 verif_arc_state; int verif_arc_live; int verif_added;
char verif_itor_obj;
#define DEST(e) ((e).fsglink ? (e).fsglink->to_state : verif_fsg->start_state)

int32 fsg_history_n_entries(fsg_history_t *h)
__CPROVER_requires(h == verif_h) __CPROVER_ensures(__CPROVER_return_value == verif_hist_n) __CPROVER_assigns();

fsg_hist_entry_t *fsg_history_entry_get(fsg_history_t *h, int32 id)
__CPROVER_requires(h == verif_h && 0 <= id && id < verif_hist_n)
__CPROVER_assigns(verif_cell.score, verif_cell.pred, verif_cell.frame, verif_cell.lc, verif_cell.rc, verif_cell0.score, verif_cell0.frame, verif_cell0.lc, verif_cell0.rc, verif_lcell, verif_cell_id)
__CPROVER_ensures(__CPROVER_pointer_equals(__CPROVER_return_value, id == 0 ? &verif_cell0 : &verif_cell) && verif_cell_id == id)
__CPROVER_ensures(0 <= verif_lcell.to_state && verif_lcell.to_state < verif_fsg->n_state)
__CPROVER_ensures(verif_cell.pred >= -1 && verif_cell.pred < id && verif_cell0.pred == -1)
__CPROVER_ensures(verif_cell.score <= 0 && verif_cell.score >= WORST_SCORE && verif_cell0.score <= 0 && verif_cell0.score >= WORST_SCORE)
;
fsg_arciter_t *fsg_model_arcs(fsg_model_t *fsg, int32 i)
__CPROVER_requires(fsg == verif_fsg && 0 <= i && i < fsg->n_state && verif_arc_live == 0)
__CPROVER_assigns(verif_acell, verif_arc_state, verif_arc_live)
__CPROVER_ensures(verif_arc_state == i)
__CPROVER_ensures((__CPROVER_return_value == NULL) == (verif_arc_live == 0))
__CPROVER_ensures(__CPROVER_return_value == NULL || __CPROVER_return_value == (fsg_arciter_t *)&verif_itor_obj)
__CPROVER_ensures(verif_acell.from_state == i && 0 <= verif_acell.to_state && verif_acell.to_state < fsg->n_state && verif_acell.wid >= -1 && verif_acell.logs2prob <= 0 && verif_acell.logs2prob >= -(1<<28))
;
fsg_arciter_t *fsg_arciter_next(fsg_arciter_t *itor)
__CPROVER_requires(itor != NULL && verif_arc_live != 0)
__CPROVER_assigns(verif_acell, verif_arc_live)
__CPROVER_ensures((__CPROVER_return_value == NULL) == (verif_arc_live == 0))
__CPROVER_ensures(__CPROVER_return_value == NULL || __CPROVER_return_value == itor)
__CPROVER_ensures(verif_acell.from_state == verif_arc_state && 0 <= verif_acell.to_state && verif_acell.to_state < verif_fsg->n_state && verif_acell.wid >= -1 && verif_acell.logs2prob <= 0 && verif_acell.logs2prob >= -(1<<28))
;
fsg_link_t *fsg_arciter_get(fsg_arciter_t *itor)
__CPROVER_requires(itor != NULL && verif_arc_live != 0)
__CPROVER_assigns()
__CPROVER_ensures(__CPROVER_return_value == &verif_acell)
;
/* producer obligation: the invariant is the callee's precondition */
void fsg_history_entry_add(fsg_history_t *h, fsg_link_t *l, int32 frame, int32 score, int32 pred, int32 lc, fsg_pnode_ctxt_t rc)
__CPROVER_requires(h == verif_h && l != NULL)
__CPROVER_requires(0 <= pred && pred < verif_hist_n && pred == verif_cell_id)
__CPROVER_requires(l->from_state == (pred == 0 ? verif_fsg->start_state : verif_lcell.to_state))
__CPROVER_requires(frame == (pred == 0 ? verif_cell0.frame : verif_cell.frame))
__CPROVER_requires(l->wid == -1)
__CPROVER_assigns(verif_added)
__CPROVER_ensures(1)
;

#endif
#endif
