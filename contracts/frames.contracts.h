/* Frame-count contracts of src/decoder.c (C03): "the frame counts returned by the processing calls add up to the
 * frames searched".  Included AFTER decoder.c and acmod.contracts.h. */
#ifndef FRAMES_CONTRACTS_H
#define FRAMES_CONTRACTS_H
#ifdef SSW_CBMC
/* one step of the active search module (reached through the v-table): counts itself */
int ssw_step(search_module_t *s, int frame_idx);

/* searches every queued feature frame, in order, exactly once */
static int search_module_forward(decoder_t *d)
#ifdef VERIF_ENFORCE_FORWARD
__CPROVER_requires(__CPROVER_is_fresh(d, sizeof(*d)) && __CPROVER_is_fresh(d->acmod, sizeof(*d->acmod)) && __CPROVER_is_fresh(d->acmod->mgau, sizeof(*d->acmod->mgau)))
__CPROVER_requires(__CPROVER_is_fresh(d->search, sizeof(*d->search)) && __CPROVER_is_fresh(d->search->vt, sizeof(*d->search->vt)) && d->search->vt->step == ssw_step)
__CPROVER_requires(WF_RING(d->acmod) && WF_GROW(d->acmod) && d->acmod->output_frame <= 0x1fffffff && d->acmod->mgau->frame_idx >= 0 && d->acmod->mgau->frame_idx <= 0x1fffffff)
__CPROVER_requires(0 <= d->n_frame && d->n_frame <= 0x1fffffff && 0 <= verif_steps && verif_steps <= 0x1fffffff)
__CPROVER_assigns(d->n_frame, d->acmod->n_feat_frame, d->acmod->feat_outidx, d->acmod->output_frame, d->acmod->mgau->frame_idx, verif_steps)
__CPROVER_ensures(IMP(__CPROVER_return_value >= 0, __CPROVER_return_value == __CPROVER_old(d->acmod->n_feat_frame) && d->acmod->n_feat_frame == 0))
__CPROVER_ensures(IMP(__CPROVER_return_value >= 0, d->n_frame == __CPROVER_old(d->n_frame) + __CPROVER_return_value
                      && d->acmod->output_frame == __CPROVER_old(d->acmod->output_frame) + __CPROVER_return_value
                      && verif_steps == __CPROVER_old(verif_steps) + __CPROVER_return_value))
#else
/* summary used by the callers: returns the number of frames it searched (>= 0) or an error, and adds it to the ghost total */
__CPROVER_requires(d != NULL)
__CPROVER_assigns(verif_fwd_sum)
__CPROVER_ensures(__CPROVER_return_value >= -1 && __CPROVER_return_value <= 0x00ffffff)
__CPROVER_ensures(verif_fwd_sum == __CPROVER_old(verif_fwd_sum) + (__CPROVER_return_value > 0 ? __CPROVER_return_value : 0))
#endif
;
#ifndef VERIF_ENFORCE_FORWARD
int acmod_process_raw(acmod_t *acmod, int16 **inout_raw, size_t *inout_n_samps, int full_utt)
__CPROVER_requires(acmod != NULL && __CPROVER_r_ok(inout_n_samps, sizeof(size_t)))
__CPROVER_assigns(*inout_raw, *inout_n_samps, verif_raw_calls)
__CPROVER_ensures(__CPROVER_return_value >= -1 && *inout_n_samps <= __CPROVER_old(*inout_n_samps))
;
int acmod_process_float32(acmod_t *acmod, float32 **inout_raw, size_t *inout_n_samps, int full_utt)
__CPROVER_requires(acmod != NULL && __CPROVER_r_ok(inout_n_samps, sizeof(size_t)))
__CPROVER_assigns(*inout_raw, *inout_n_samps, verif_raw_calls)
__CPROVER_ensures(__CPROVER_return_value >= -1 && *inout_n_samps <= __CPROVER_old(*inout_n_samps))
;
int acmod_set_grow(acmod_t *acmod, int grow) __CPROVER_requires(acmod != NULL) __CPROVER_assigns() __CPROVER_ensures(1);
int decoder_process_int16(decoder_t *d, int16 *data, size_t n_samples, int no_search, int full_utt)
__CPROVER_requires(__CPROVER_is_fresh(d, sizeof(*d)) && __CPROVER_is_fresh(d->acmod, sizeof(*d->acmod)))
__CPROVER_requires(d->acmod->state == ACMOD_STARTED || d->acmod->state == ACMOD_PROCESSING)
__CPROVER_requires(0 <= verif_fwd_sum && verif_fwd_sum <= 0x00ffffff)
__CPROVER_assigns(verif_fwd_sum, verif_raw_calls)
/* the value returned is the total number of frames searched during the call, however many rounds it took */
__CPROVER_ensures(IMP(__CPROVER_return_value >= 0, __CPROVER_return_value == verif_fwd_sum - __CPROVER_old(verif_fwd_sum)))
__CPROVER_ensures(IMP(no_search && __CPROVER_return_value >= 0, __CPROVER_return_value == 0))
;
int decoder_process_float32(decoder_t *d, float32 *data, size_t n_samples, int no_search, int full_utt)
__CPROVER_requires(__CPROVER_is_fresh(d, sizeof(*d)) && __CPROVER_is_fresh(d->acmod, sizeof(*d->acmod)))
__CPROVER_requires(d->acmod->state == ACMOD_STARTED || d->acmod->state == ACMOD_PROCESSING)
__CPROVER_requires(0 <= verif_fwd_sum && verif_fwd_sum <= 0x00ffffff)
__CPROVER_assigns(verif_fwd_sum, verif_raw_calls)
__CPROVER_ensures(IMP(__CPROVER_return_value >= 0, __CPROVER_return_value == verif_fwd_sum - __CPROVER_old(verif_fwd_sum)))
__CPROVER_ensures(IMP(no_search && __CPROVER_return_value >= 0, __CPROVER_return_value == 0))
;
#endif
#endif
#endif
