/* Contracts for src/fsg_model.c (C13).  Included AFTER the source. */
#ifndef FSG_MODEL_CONTRACTS_H
#define FSG_MODEL_CONTRACTS_H
#ifdef SSW_CBMC
#define OLDP __CPROVER_old(verif_mlink.logs2prob)
/* Null-arc merge: the arc (from,to) ends with max(old, logp); every other arc is untouched; self-loops are rejected;
 * the return value says what happened (1 new, 0 raised, -1 nothing). */
int32 fsg_model_tag_trans_add(fsg_model_t *fsg, int32 from, int32 to, int32 logp, int32 wid)
__CPROVER_requires(__CPROVER_is_fresh(fsg, sizeof(*fsg)) && fsg->n_state == 6)
__CPROVER_requires(__CPROVER_is_fresh(fsg->trans, 6 * sizeof(trans_list_t)))
__CPROVER_requires(0 <= from && from < fsg->n_state && 0 <= to && to < fsg->n_state)
__CPROVER_requires(fsg->trans[from].null_trans == NULL || fsg->trans[from].null_trans == &verif_ht_obj)
__CPROVER_requires(IMP(fsg->trans[from].null_trans == NULL, !verif_mpresent))
__CPROVER_requires(logp <= 0)   /* probabilities <= 1: a caller obligation (E_FATAL otherwise) */
__CPROVER_requires(verif_mlink.from_state == from && verif_mlink.to_state == verif_mk && verif_mlink.wid == -1 && verif_entered == 0)
__CPROVER_assigns(fsg->trans[from].null_trans, verif_mlink.logs2prob, verif_other.logs2prob, verif_newlink, verif_entered, verif_entered_key, verif_entered_val)
__CPROVER_ensures(IMP(from == to, __CPROVER_return_value == -1 && verif_entered == 0 && verif_mlink.logs2prob == OLDP))
__CPROVER_ensures(IMP(from != to && to == verif_mk && __CPROVER_old(verif_mpresent),
    verif_entered == 0 && verif_mlink.logs2prob == (OLDP < logp ? logp : OLDP) && __CPROVER_return_value == (OLDP < logp ? 0 : -1)))
__CPROVER_ensures(IMP(from != to && to == verif_mk && !__CPROVER_old(verif_mpresent),
    verif_entered == 1 && verif_entered_key == to && verif_entered_val == &verif_newlink && verif_newlink.from_state == from
    && verif_newlink.to_state == to && verif_newlink.logs2prob == logp && verif_newlink.wid == -1 && __CPROVER_return_value == 1))
/* never removes or lowers: the witness arc, when it is another arc, is untouched */
__CPROVER_ensures(IMP(to != verif_mk, verif_mlink.logs2prob == OLDP && (verif_entered == 0 || verif_entered_key != verif_mk)))
__CPROVER_ensures(verif_mlink.logs2prob >= OLDP)
;
int32 fsg_model_null_trans_add(fsg_model_t *fsg, int32 from, int32 to, int32 logp)
__CPROVER_requires(__CPROVER_is_fresh(fsg, sizeof(*fsg)) && fsg->n_state == 6)
__CPROVER_requires(__CPROVER_is_fresh(fsg->trans, 6 * sizeof(trans_list_t)))
__CPROVER_requires(0 <= from && from < fsg->n_state && 0 <= to && to < fsg->n_state)
__CPROVER_requires(fsg->trans[from].null_trans == NULL || fsg->trans[from].null_trans == &verif_ht_obj)
__CPROVER_requires(IMP(fsg->trans[from].null_trans == NULL, !verif_mpresent))
__CPROVER_requires(logp <= 0)
__CPROVER_requires(verif_mlink.from_state == from && verif_mlink.to_state == verif_mk && verif_mlink.wid == -1 && verif_entered == 0)
__CPROVER_assigns(fsg->trans[from].null_trans, verif_mlink.logs2prob, verif_other.logs2prob, verif_newlink, verif_entered, verif_entered_key, verif_entered_val)
__CPROVER_ensures(IMP(from != to && to == verif_mk && __CPROVER_old(verif_mpresent),
    verif_mlink.logs2prob == (OLDP < logp ? logp : OLDP) && __CPROVER_return_value == (OLDP < logp ? 0 : -1)))
__CPROVER_ensures(IMP(from != to && to == verif_mk && !__CPROVER_old(verif_mpresent), verif_entered == 1 && __CPROVER_return_value == 1))
__CPROVER_ensures(verif_mlink.logs2prob >= OLDP)
;
#endif
#endif
