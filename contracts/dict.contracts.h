/* Contracts for src/dict.c (C16).  Included AFTER the source.
 * The word hash table is replaced by its map view at the two keys the call touches (the base spelling and the new
 * spelling): ghost verif_base_present / verif_base_wid, verif_dup_present / verif_dup_wid.  C20 checks the map view on
 * the real hash table. */
#ifndef DICT_CONTRACTS_H
#define DICT_CONTRACTS_H
#ifndef DICT_MAXW
#define DICT_MAXW 6
#endif
//         /* allocated slots in the verification instance (n_word symbolic below it) */
#ifdef SSW_CBMC
/* assumed map view */
int32 hash_table_lookup_int32(hash_table_t *h, const char *key, int32 *val)
__CPROVER_requires(h != NULL && __CPROVER_is_fresh(val, sizeof(*val)))
__CPROVER_assigns(*val)
__CPROVER_ensures(__CPROVER_return_value == (verif_base_present ? 0 : -1))
__CPROVER_ensures(IMP(verif_base_present, *val == verif_base_wid))
;
void *hash_table_enter(hash_table_t *h, const char *key, void *val)
__CPROVER_requires(h != NULL)
__CPROVER_assigns(verif_entered_cnt)
__CPROVER_ensures(__CPROVER_return_value == (verif_dup_present ? (void *)(size_t)verif_dup_wid : val))
__CPROVER_ensures(verif_entered_cnt == __CPROVER_old(verif_entered_cnt) + (verif_dup_present ? 0 : 1))
;
/* string helpers (assumed): a copy is a fresh writable block; dict_word2basestr strips "(...)" and says where */
char *__ckd_salloc__(const char *orig, const char *file, int line)
__CPROVER_requires(orig != NULL)
__CPROVER_assigns()
__CPROVER_ensures(__CPROVER_is_fresh(__CPROVER_return_value, 16))
;
int32 dict_word2basestr(char *word)
__CPROVER_requires(__CPROVER_w_ok(word, 16))
__CPROVER_assigns(__CPROVER_object_whole(word))
__CPROVER_ensures(__CPROVER_return_value == verif_baselen && verif_baselen >= -1 && verif_baselen < 15)
;

#define DW_SAME(w) (d->word[w].word == __CPROVER_old(d->word[verif_w].word) && d->word[w].ciphone == __CPROVER_old(d->word[verif_w].ciphone) \
    && d->word[w].pronlen == __CPROVER_old(d->word[verif_w].pronlen) && d->word[w].basewid == __CPROVER_old(d->word[verif_w].basewid))
s3wid_t dict_add_word(dict_t *d, const char *word, s3cipid_t const *p, int32 np)
__CPROVER_requires(__CPROVER_is_fresh(d, sizeof(*d)) && d->max_words == DICT_MAXW && 0 <= d->n_word && d->n_word < DICT_MAXW)
__CPROVER_requires(__CPROVER_is_fresh(d->word, DICT_MAXW * sizeof(dictword_t)) && d->ht != NULL && word != NULL)
__CPROVER_requires(0 <= np && np <= 4 && (np == 0 || __CPROVER_is_fresh(p, 4 * sizeof(s3cipid_t))))
/* map view is consistent with the table: ids stored in the hash table denote existing entries */
__CPROVER_requires(IMP(verif_base_present, 0 <= verif_base_wid && verif_base_wid < d->n_word))
__CPROVER_requires(IMP(verif_dup_present, 0 <= verif_dup_wid && verif_dup_wid < d->n_word))
__CPROVER_requires(0 <= verif_w && verif_w < d->n_word && 0 <= verif_k && verif_k < 4 && verif_entered_cnt == 0)
__CPROVER_assigns(d->n_word, __CPROVER_object_whole(d->word), verif_entered_cnt)
/* a rejected addition leaves the dictionary unchanged: every existing entry (witness verif_w) keeps all its fields */
__CPROVER_ensures(IMP(__CPROVER_return_value == BAD_S3WID, d->n_word == __CPROVER_old(d->n_word) && verif_entered_cnt == 0
                      && DW_SAME(verif_w) && d->word[verif_w].alt == __CPROVER_old(d->word[verif_w].alt)))
/* rejected exactly when the spelling is already known or an alternate has no base word */
__CPROVER_ensures((__CPROVER_return_value == BAD_S3WID) == (verif_dup_present || (verif_baselen > 0 && !verif_base_present)))
/* success: the word gets the next id, the given pronunciation, and is linked to its base word */
__CPROVER_ensures(IMP(__CPROVER_return_value != BAD_S3WID, __CPROVER_return_value == __CPROVER_old(d->n_word)
                      && d->n_word == __CPROVER_old(d->n_word) + 1 && verif_entered_cnt == 1))
__CPROVER_ensures(IMP(__CPROVER_return_value != BAD_S3WID, d->word[__CPROVER_return_value].pronlen == np
                      && (np == 0 || verif_k >= np || d->word[__CPROVER_return_value].ciphone[verif_k] == p[verif_k])))
__CPROVER_ensures(IMP(__CPROVER_return_value != BAD_S3WID && verif_baselen > 0,
                      d->word[__CPROVER_return_value].basewid == verif_base_wid && d->word[verif_base_wid].alt == __CPROVER_return_value
                      && d->word[__CPROVER_return_value].alt == __CPROVER_old(d->word[verif_base_wid].alt)))
__CPROVER_ensures(IMP(__CPROVER_return_value != BAD_S3WID && verif_baselen <= 0,
                      d->word[__CPROVER_return_value].basewid == __CPROVER_return_value && d->word[__CPROVER_return_value].alt == BAD_S3WID))
/* every previously known word keeps its identity and pronunciation; only a base word's alt link may change */
__CPROVER_ensures(IMP(__CPROVER_return_value != BAD_S3WID, DW_SAME(verif_w)
                      && (d->word[verif_w].alt == __CPROVER_old(d->word[verif_w].alt) || (verif_baselen > 0 && verif_w == verif_base_wid))))
;
#endif
#endif
