/* Contracts for the consumer side of the history table in src/fsg_search.c (C01, C03).  Included AFTER the source. */
#ifndef FSG_SEARCH_CONTRACTS_H
#define FSG_SEARCH_CONTRACTS_H
#ifdef SSW_CBMC

/* the witness entry is itself well-formed */
#define WIT_OK (0 <= verif_w && (verif_wit.fsglink == NULL || verif_wit.fsglink == &verif_wlink))

static int fsg_search_find_exit(fsg_search_t *fsgs, int frame_idx, int final, int32 *out_score)
__CPROVER_requires(__CPROVER_is_fresh(fsgs, sizeof(*fsgs)))
__CPROVER_requires(__CPROVER_is_fresh(fsgs->fsg, sizeof(*fsgs->fsg)))
__CPROVER_requires(fsgs->history == verif_h && verif_hist_n >= 0)
__CPROVER_requires(out_score == NULL || __CPROVER_is_fresh(out_score, sizeof(*out_score)))
__CPROVER_requires(WIT_OK)
__CPROVER_requires(frame_idx >= -1 && frame_idx <= 0x3fffffff && fsgs->frame >= 0 && fsgs->frame <= 0x3fffffff)
__CPROVER_requires(final == 0 || final == 1)
__CPROVER_assigns(verif_cell, verif_lcell, verif_cell_id; out_score != NULL: *out_score)
/* -1 (no path / final state not reached), 0 (nothing yet) or the id of a real entry */
__CPROVER_ensures(__CPROVER_return_value >= -1 && __CPROVER_return_value < (verif_hist_n > 0 ? verif_hist_n : 1))
/* for every id (witness verif_w): if it is the one returned, it has a link, ends no later than the requested frame,
 * its score is the score reported, and -- the C01 clause -- for a final result it enters the grammar's final state */
__CPROVER_ensures(IMP(__CPROVER_return_value > 0 && __CPROVER_return_value == verif_w, verif_wit.fsglink != NULL))
__CPROVER_ensures(IMP(__CPROVER_return_value > 0 && __CPROVER_return_value == verif_w && final, verif_wlink.to_state == fsgs->fsg->final_state))
__CPROVER_ensures(IMP(__CPROVER_return_value > 0 && __CPROVER_return_value == verif_w && out_score != NULL, *out_score == verif_wit.score))
__CPROVER_ensures(IMP(__CPROVER_return_value > 0 && __CPROVER_return_value == verif_w,
                      verif_wit.frame <= (frame_idx == -1 ? fsgs->frame - 1 : frame_idx)))
#ifdef VERIF_CASE_NO_EXIT
/* case selection for the callers' "no hypothesis" clause (only ever used with --replace-call-with-contract): restricts
 * the callee to the outcomes <= 0 its contract already allows */
__CPROVER_ensures(__CPROVER_return_value <= 0)
#endif
;

#ifdef VERIF_CASE_NO_EXIT
/* C01: "if no such path survives, no hypothesis is returned rather than a non-sentence" -- whenever the exit search
 * reports no admissible exit, no string / no segmentation is handed out and nothing is changed. */
const char *fsg_search_hyp(search_module_t *search, int32 *out_score)
__CPROVER_requires(__CPROVER_is_fresh(search, sizeof(fsg_search_t)))
__CPROVER_requires(__CPROVER_is_fresh(((fsg_search_t *)search)->fsg, sizeof(fsg_model_t)))
__CPROVER_requires(((fsg_search_t *)search)->history == verif_h && verif_hist_n >= 0 && WIT_OK)
__CPROVER_requires(((fsg_search_t *)search)->frame >= 0 && ((fsg_search_t *)search)->frame <= 0x3fffffff)
__CPROVER_requires(((fsg_search_t *)search)->final == 0 || ((fsg_search_t *)search)->final == 1)
__CPROVER_requires(out_score == NULL || __CPROVER_is_fresh(out_score, sizeof(*out_score)))
__CPROVER_assigns(verif_cell, verif_lcell, verif_cell_id; out_score != NULL: *out_score)
__CPROVER_ensures(__CPROVER_return_value == NULL)
__CPROVER_ensures(search->hyp_str == __CPROVER_old(search->hyp_str))
;
static seg_iter_t *fsg_search_seg_iter(search_module_t *search)
__CPROVER_requires(__CPROVER_is_fresh(search, sizeof(fsg_search_t)))
__CPROVER_requires(__CPROVER_is_fresh(((fsg_search_t *)search)->fsg, sizeof(fsg_model_t)))
__CPROVER_requires(((fsg_search_t *)search)->history == verif_h && verif_hist_n >= 0 && WIT_OK)
__CPROVER_requires(((fsg_search_t *)search)->frame >= 0 && ((fsg_search_t *)search)->frame <= 0x3fffffff)
__CPROVER_requires(((fsg_search_t *)search)->final == 0 || ((fsg_search_t *)search)->final == 1)
__CPROVER_assigns(verif_cell, verif_lcell, verif_cell_id)
__CPROVER_ensures(__CPROVER_return_value == NULL)
;
#endif


/* Segment of one history entry (C03).  The witness is instantiated at the predecessor: verif_w == e->pred. */
static void fsg_seg_bp2itor(seg_iter_t *seg, fsg_hist_entry_t *hist_entry)
__CPROVER_requires(__CPROVER_is_fresh(seg, sizeof(fsg_seg_t)))
__CPROVER_requires(__CPROVER_is_fresh(seg->search, sizeof(fsg_search_t)))
__CPROVER_requires(__CPROVER_is_fresh(((fsg_search_t *)seg->search)->fsg, sizeof(fsg_model_t)))
__CPROVER_requires(((fsg_search_t *)seg->search)->fsg->n_word == 8 && __CPROVER_is_fresh(((fsg_search_t *)seg->search)->fsg->vocab, 8 * sizeof(char *)))
__CPROVER_requires(((fsg_search_t *)seg->search)->history == verif_h && verif_hist_n >= 1)
__CPROVER_requires(__CPROVER_is_fresh(hist_entry, sizeof(*hist_entry)) && __CPROVER_is_fresh(hist_entry->fsglink, sizeof(fsg_link_t)))
__CPROVER_requires(hist_entry->fsglink->wid >= -1 && hist_entry->fsglink->wid < 8)
/* element invariant of the entry and of its predecessor (witness) */
__CPROVER_requires(WIT_OK && hist_entry->pred == verif_w && verif_w < verif_hist_n)
__CPROVER_requires(hist_entry->frame >= -1 && hist_entry->frame <= 0x3fffffff && HIST_SCORE_OK(hist_entry->score) && HIST_SCORE_OK(verif_wit.score))
__CPROVER_requires(verif_wit.frame >= -1 && verif_wit.frame <= hist_entry->frame)
__CPROVER_requires(hist_entry->fsglink->logs2prob <= 0 && hist_entry->fsglink->logs2prob >= -0x40000000)
__CPROVER_assigns(seg->word, seg->sf, seg->ef, seg->lscr, seg->ascr, seg->prob, verif_cell, verif_lcell, verif_cell_id)
__CPROVER_ensures(seg->ef == hist_entry->frame)
/* starts on the frame after the predecessor ends; a segment that would be empty (null arc) is a zero-length marker */
__CPROVER_ensures(seg->sf == (verif_wit.frame + 1 <= hist_entry->frame ? verif_wit.frame + 1 : hist_entry->frame))
__CPROVER_ensures(IMP(verif_wit.frame < hist_entry->frame, seg->sf == verif_wit.frame + 1 && seg->sf <= seg->ef))
__CPROVER_ensures(seg->lscr == (hist_entry->fsglink->logs2prob >> SENSCR_SHIFT))
/* per-segment scores add up to the path-score difference: the telescoping step */
__CPROVER_ensures(seg->ascr + seg->lscr == hist_entry->score - verif_wit.score)
__CPROVER_ensures(seg->prob == seg->ascr + seg->lscr)
__CPROVER_ensures(seg->word == (hist_entry->fsglink->wid == -1 ? seg->word : ((fsg_search_t *)seg->search)->fsg->vocab[hist_entry->fsglink->wid]))
;
#endif
#endif
