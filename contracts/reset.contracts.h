/* Reset contracts (C08): after a *_start* function every per-utterance field has a value that does not depend on the
 * pre-state; configuration fields are outside the frame.  Included AFTER the source of the TU under test. */
#ifndef RESET_CONTRACTS_H
#define RESET_CONTRACTS_H
#ifdef SSW_CBMC
#ifdef VERIF_TU_ACMOD
int fe_start(fe_t *fe)
__CPROVER_requires(fe != NULL) __CPROVER_assigns() __CPROVER_ensures(__CPROVER_return_value == 0);
int acmod_start_utt(acmod_t *acmod)
__CPROVER_requires(__CPROVER_is_fresh(acmod, sizeof(*acmod)) && __CPROVER_is_fresh(acmod->mgau, sizeof(*acmod->mgau)) && acmod->fe != NULL)
__CPROVER_assigns(acmod->state, acmod->n_mfc_frame, acmod->n_feat_frame, acmod->mfc_outidx, acmod->feat_outidx, acmod->output_frame,
                  acmod->senscr_frame, acmod->n_senone_active, acmod->mgau->frame_idx)
__CPROVER_ensures(__CPROVER_return_value == 0 && acmod->state == ACMOD_STARTED)
__CPROVER_ensures(acmod->n_mfc_frame == 0 && acmod->n_feat_frame == 0 && acmod->mfc_outidx == 0 && acmod->feat_outidx == 0)
__CPROVER_ensures(acmod->output_frame == 0 && acmod->senscr_frame == -1 && acmod->n_senone_active == 0 && acmod->mgau->frame_idx == 0)
;
#endif
#ifdef VERIF_TU_FE
void fe_reset_noisestats(noise_stats_t *noise_stats)
__CPROVER_requires(1) __CPROVER_assigns(verif_noise_reset) __CPROVER_ensures(verif_noise_reset == 1);
int fe_start(fe_t *fe)
__CPROVER_requires(__CPROVER_is_fresh(fe, sizeof(*fe)) && fe->frame_size == 4 && __CPROVER_is_fresh(fe->overflow_samps, 4 * sizeof(float32)))
__CPROVER_requires(0 <= verif_k && verif_k < 4)
__CPROVER_assigns(fe->num_overflow_samps, fe->pre_emphasis_prior, __CPROVER_object_whole(fe->overflow_samps), verif_noise_reset)
__CPROVER_ensures(__CPROVER_return_value == 0 && fe->num_overflow_samps == 0 && fe->pre_emphasis_prior == 0 && verif_noise_reset == 1)
__CPROVER_ensures(fe->overflow_samps[verif_k] == 0.0f)
;
#endif
#ifdef VERIF_TU_DECODER
/* in-protocol start: every residue of the previous utterance held by the decoder object is dropped */
int acmod_start_utt(acmod_t *acmod) __CPROVER_requires(acmod != NULL) __CPROVER_assigns() __CPROVER_ensures(__CPROVER_return_value == 0);
int lattice_free(lattice_t *dag) __CPROVER_requires(1) __CPROVER_assigns() __CPROVER_ensures(1);
void ptmr_reset(ptmr_t *t) __CPROVER_requires(1) __CPROVER_assigns() __CPROVER_ensures(1);
void ptmr_start(ptmr_t *t) __CPROVER_requires(1) __CPROVER_assigns() __CPROVER_ensures(1);
int decoder_start_utt(decoder_t *d)
__CPROVER_requires(__CPROVER_is_fresh(d, sizeof(*d)) && __CPROVER_is_fresh(d->acmod, sizeof(*d->acmod)) && __CPROVER_is_fresh(d->search, sizeof(*d->search)))
__CPROVER_requires(d->acmod->state == ACMOD_IDLE || d->acmod->state == ACMOD_ENDED)
__CPROVER_requires(d->search->hyp_str == NULL && d->json_result == NULL && d->uttno < 1000000)
__CPROVER_requires(__CPROVER_is_fresh(d->search->vt, sizeof(*d->search->vt)) && d->search->vt->start == ssw_search_start)
__CPROVER_requires(d->align == NULL || (__CPROVER_is_fresh(d->align, sizeof(*d->align)) && __CPROVER_is_fresh(d->align->vt, sizeof(*d->align->vt)) && d->align->vt->free == ssw_search_free))
__CPROVER_assigns(d->uttno, d->search->dag, d->search->last_link, d->search->post, d->search->hyp_str, d->json_result, d->align)
__CPROVER_ensures(__CPROVER_return_value == 0 && d->uttno == __CPROVER_old(d->uttno) + 1)
__CPROVER_ensures(d->search->dag == NULL && d->search->last_link == NULL && d->search->post == 0 && d->search->hyp_str == NULL)
__CPROVER_ensures(d->json_result == NULL && d->align == NULL)
;
#endif
#endif
#endif
