/* Contracts for the feature ring buffer of src/acmod.c (C07).  Included AFTER the source.
 * Integer-level: the feature vectors themselves are opaque (feat_s2mfc2feat_live is an assumed contract). */
#ifndef ACMOD_CONTRACTS_H
#define ACMOD_CONTRACTS_H
#define AC_MAXALLOC 0x10000000
/* representation invariant of the feature ring */
#define WF_RING(a) (1 <= (a)->n_feat_alloc && (a)->n_feat_alloc <= AC_MAXALLOC && 0 <= (a)->feat_outidx && (a)->feat_outidx < (a)->n_feat_alloc \
    && 0 <= (a)->n_feat_frame && (a)->n_feat_frame <= (a)->n_feat_alloc && 0 <= (a)->output_frame)
/* growing (buffered) mode: the buffer is linear and never filled to the brim, so the read index never wraps */
#define WF_GROW(a) IMP((a)->grow_feat, (a)->feat_outidx + (a)->n_feat_frame < (a)->n_feat_alloc)
#define AC_MOD(x, m) ((((x) % (m)) + (m)) % (m))
#if defined(SSW_CBMC) && !defined(ACMOD_MACROS_ONLY)
int acmod_advance(acmod_t *acmod)
__CPROVER_requires(__CPROVER_is_fresh(acmod, sizeof(*acmod)) && __CPROVER_is_fresh(acmod->mgau, sizeof(*acmod->mgau)))
__CPROVER_requires(WF_RING(acmod) && WF_GROW(acmod) && acmod->output_frame < 0x3fffffff && acmod->n_feat_frame >= 1 && acmod->mgau->frame_idx >= 0 && acmod->mgau->frame_idx < 0x3fffffff)
__CPROVER_assigns(acmod->feat_outidx, acmod->n_feat_frame, acmod->output_frame, acmod->mgau->frame_idx)
/* frames are consumed in order: the read slot moves to the next slot of the ring, one frame leaves the queue */
__CPROVER_ensures(acmod->feat_outidx == (__CPROVER_old(acmod->feat_outidx) + 1) % acmod->n_feat_alloc)
__CPROVER_ensures(acmod->n_feat_frame == __CPROVER_old(acmod->n_feat_frame) - 1)
__CPROVER_ensures(acmod->output_frame == __CPROVER_old(acmod->output_frame) + 1 && __CPROVER_return_value == acmod->output_frame)
__CPROVER_ensures(acmod->mgau->frame_idx == __CPROVER_old(acmod->mgau->frame_idx) + 1)
__CPROVER_ensures(WF_RING(acmod) && WF_GROW(acmod))
/* in growing mode the read index never wraps (so the buffer can be rewound) */
__CPROVER_ensures(IMP(acmod->grow_feat, acmod->feat_outidx == __CPROVER_old(acmod->feat_outidx) + 1))
;
#ifndef ACMOD_PUBLIC_ONLY
static int calc_feat_idx(acmod_t *acmod, int frame_idx)
__CPROVER_requires(__CPROVER_is_fresh(acmod, sizeof(*acmod)) && WF_RING(acmod) && acmod->output_frame <= 0x3fffffff && frame_idx <= 0x3fffffff && frame_idx >= -0x3fffffff)
/* ring sizes up to 256 frames (the shipped default is 128), frame numbers up to 100000: a 32-bit symbolic modulus does not finish */
__CPROVER_requires(acmod->n_feat_alloc <= 256 && acmod->output_frame <= 100000 && frame_idx <= 100000 && frame_idx >= -100000)
__CPROVER_assigns()
/* slot of absolute frame f is (feat_outidx + f - output_frame) mod n_feat_alloc; frames older than the ring holds are refused */
__CPROVER_ensures((__CPROVER_return_value == -1) == (frame_idx < 0 || acmod->output_frame - frame_idx > acmod->n_feat_alloc - acmod->n_feat_frame))
__CPROVER_ensures(IMP(__CPROVER_return_value != -1, 0 <= __CPROVER_return_value && __CPROVER_return_value < acmod->n_feat_alloc
                      && __CPROVER_return_value == AC_MOD(acmod->feat_outidx + frame_idx - acmod->output_frame, acmod->n_feat_alloc)))
;
#endif
int acmod_rewind(acmod_t *acmod)
__CPROVER_requires(__CPROVER_is_fresh(acmod, sizeof(*acmod)) && __CPROVER_is_fresh(acmod->mgau, sizeof(*acmod->mgau)) && WF_RING(acmod) && acmod->output_frame <= 0x3fffffff)
/* every caller rewinds with all frames consumed or in growing mode: the frames still queued plus the frames consumed fit */
__CPROVER_requires(acmod->output_frame + acmod->n_feat_frame <= acmod->n_feat_alloc || acmod->output_frame > acmod->n_feat_alloc)
__CPROVER_assigns(acmod->n_feat_frame, acmod->feat_outidx, acmod->output_frame, acmod->senscr_frame, acmod->mgau->frame_idx)
__CPROVER_ensures(IMP(__CPROVER_old(acmod->output_frame) > acmod->n_feat_alloc, __CPROVER_return_value == -1 && acmod->output_frame == __CPROVER_old(acmod->output_frame)
                      && acmod->n_feat_frame == __CPROVER_old(acmod->n_feat_frame) && acmod->feat_outidx == __CPROVER_old(acmod->feat_outidx)))
__CPROVER_ensures(IMP(__CPROVER_old(acmod->output_frame) <= acmod->n_feat_alloc, __CPROVER_return_value == 0 && acmod->output_frame == 0 && acmod->feat_outidx == 0
                      && acmod->n_feat_frame == __CPROVER_old(acmod->output_frame) + __CPROVER_old(acmod->n_feat_frame) && acmod->senscr_frame == -1))
__CPROVER_ensures(WF_RING(acmod))
;

#ifndef ACMOD_PUBLIC_ONLY
/* assumed: growing keeps the contents (feat_array_realloc / ckd_realloc) and sets the new size */
void acmod_grow_feat_buf(acmod_t *acmod, int nfr)
__CPROVER_requires(nfr >= acmod->n_feat_alloc && nfr <= 0x40000000)
__CPROVER_assigns(acmod->feat_buf, acmod->framepos, acmod->n_feat_alloc)
__CPROVER_ensures(acmod->n_feat_alloc == nfr)
;
/* assumed: dynamic-feature computation consumes at most *inout_ncep cepstra and produces at most
 * ncep (+ window at the end of the utterance, - window at its start) feature frames at ofeat.
 * Its precondition is the caller obligation of the ring: that many slots exist from the write position to the end of
 * the allocation (ghost verif_room = slots from the write position to the end, set by a ghost statement). */
int32 feat_s2mfc2feat_live(feat_t *fcb, mfcc_t **uttcep, int32 *inout_ncep, int32 beginutt, int32 endutt, mfcc_t ***ofeat)
__CPROVER_requires(inout_ncep != NULL && *inout_ncep >= 0)
__CPROVER_requires((beginutt ? (*inout_ncep > fcb->window_size ? *inout_ncep - fcb->window_size : 0) : *inout_ncep) + (endutt ? fcb->window_size : 0) <= verif_room)
__CPROVER_assigns(*inout_ncep)
__CPROVER_ensures(0 <= *inout_ncep && *inout_ncep <= __CPROVER_old(*inout_ncep))
__CPROVER_ensures(-1 <= __CPROVER_return_value && __CPROVER_return_value <= (beginutt ? (__CPROVER_old(*inout_ncep) > fcb->window_size ? __CPROVER_old(*inout_ncep) - fcb->window_size : 0) : __CPROVER_old(*inout_ncep)) + (endutt ? fcb->window_size : 0))
;

int acmod_process_cep(acmod_t *acmod, mfcc_t ***inout_cep, int *inout_n_frames, int full_utt)
__CPROVER_requires(__CPROVER_is_fresh(acmod, sizeof(*acmod)) && __CPROVER_is_fresh(acmod->fcb, sizeof(*acmod->fcb)) && WF_RING(acmod) && WF_GROW(acmod))
__CPROVER_requires(acmod->n_feat_alloc <= 0x1000000 && 0 <= acmod->fcb->window_size && acmod->fcb->window_size <= 16)
__CPROVER_requires(__CPROVER_is_fresh(inout_cep, sizeof(*inout_cep)) && __CPROVER_is_fresh(inout_n_frames, sizeof(int)) && 0 <= *inout_n_frames && *inout_n_frames <= 0x1000000)
__CPROVER_requires(full_utt == 0 && (acmod->state == ACMOD_STARTED || acmod->state == ACMOD_PROCESSING || acmod->state == ACMOD_ENDED))
__CPROVER_requires(acmod->grow_feat == 0 || acmod->grow_feat == 1)
/* streaming mode: the unread region has not wrapped around the end of the ring (decoder_process_* drains the ring after
 * every call, so n_feat_frame == 0 there).  Without this the two-part write uses the UNCLAMPED frame count and can
 * overwrite unread frames -- reachable only through the acmod-level API, recorded as an observation in DESIGN.md */
__CPROVER_requires(acmod->grow_feat || acmod->n_feat_frame == 0 || acmod->feat_outidx + acmod->n_feat_frame < acmod->n_feat_alloc)
__CPROVER_assigns(acmod->feat_buf, acmod->framepos, acmod->n_feat_alloc, acmod->n_feat_frame, acmod->state, *inout_cep, *inout_n_frames, verif_room)
/* the ring invariant is preserved: nothing unread is overwritten (n_feat_frame <= n_feat_alloc), the code's own
 * assertions hold, in growing mode the buffer stays linear */
__CPROVER_ensures(WF_RING(acmod) && WF_GROW(acmod))
__CPROVER_ensures(acmod->n_feat_frame >= __CPROVER_old(acmod->n_feat_frame) && acmod->feat_outidx == __CPROVER_old(acmod->feat_outidx))
__CPROVER_ensures(IMP(__CPROVER_return_value >= 0, __CPROVER_return_value == __CPROVER_old(*inout_n_frames) - *inout_n_frames && 0 <= *inout_n_frames))
__CPROVER_ensures(IMP(__CPROVER_return_value >= 0 && __CPROVER_old(acmod->state) == ACMOD_STARTED && !(0), acmod->state == ACMOD_PROCESSING || acmod->state == ACMOD_STARTED))
;
#endif
#endif
#endif
