/* Bounds-only contracts for memcpy/memmove (DESIGN 2.14): used by integer-level groups that compile with
 * -DSSW_NO_MEM_STUBS and replace ssw_memcpy/ssw_memmove by these contracts.  The requires clauses are asserted at every
 * call site (that IS the bounds obligation); the copied content is havocked. */
#ifndef MEM_CONTRACTS_H
#define MEM_CONTRACTS_H
#ifdef SSW_CBMC
void *ssw_memcpy(void *dst, const void *src, size_t n)
__CPROVER_requires(__CPROVER_r_ok(src, n) && __CPROVER_w_ok(dst, n))
__CPROVER_assigns(__CPROVER_object_whole(dst))
__CPROVER_ensures(__CPROVER_return_value == dst)
;
void *ssw_memmove(void *dst, const void *src, size_t n)
__CPROVER_requires(__CPROVER_r_ok(src, n) && __CPROVER_w_ok(dst, n))
__CPROVER_assigns(__CPROVER_object_whole(dst))
__CPROVER_ensures(__CPROVER_return_value == dst)
;
#endif
#endif
