/* Contracts for src/ps_endpointer.c (C15).  Included AFTER the source (struct endpointer_s is defined there).
 * Geometry is concrete per run (DESIGN 2.7): -DEP_MAXLEN=<frames in the look-back queue> -DEP_FS=<samples per frame>. */
#ifndef PS_ENDPOINTER_CONTRACTS_H
#define PS_ENDPOINTER_CONTRACTS_H
#ifdef EP_SYMBOLIC_MAXLEN
/* index-level groups: queue length symbolic (2..3000 frames), every macro below refers to the parameter named ep */
#define EP_MAXLEN (ep->maxlen)
#ifndef EP_MAXLEN_BOUND
#define EP_MAXLEN_BOUND 3000
#endif
#define EP_MAXLEN_OK(ep) (2 <= (ep)->maxlen && (ep)->maxlen <= EP_MAXLEN_BOUND)
#else
#ifndef EP_MAXLEN
#define EP_MAXLEN 4
#endif
#define EP_MAXLEN_OK(ep) ((ep)->maxlen == EP_MAXLEN)
#endif
#ifndef EP_FS
#define EP_FS 4
#endif

/* ghost state is declared in ssw_ghost.h: verif_w / verif_k (witness slot / sample), verif_last_count (value
 * returned by the last ep_speech_count, set by a ghost statement in the source), verif_vad_rate */

#define EP_SLOT(pos, n) (((pos) + (n)) % EP_MAXLEN)
#define EP_NEXT(pos) (((pos) + 1) % EP_MAXLEN)
#define EP_VALS(ep) (EP_MAXLEN_OK(ep) && (ep)->frame_size == EP_FS \
    && 0 <= (ep)->pos && (ep)->pos < EP_MAXLEN && 0 <= (ep)->n && (ep)->n <= EP_MAXLEN \
    && 0 < (ep)->start_frames && (ep)->start_frames < EP_MAXLEN && 0 < (ep)->end_frames && (ep)->end_frames < EP_MAXLEN \
    && ((ep)->in_speech == 0 || (ep)->in_speech == 1) \
    && 0 <= (ep)->verif_dropped && (ep)->verif_dropped <= (ep)->verif_pushed \
    && (ep)->n == (ep)->verif_pushed - (ep)->verif_dropped)
/* times are finite, non-negative stream positions (NaN would make every equality false) */
/* ghost counters cannot wrap (2^61 frames) */
#define EP_GHOST_OK(ep) ((ep)->verif_pushed <= 2000000000000000000L)
#define EP_TIMES(ep) (EP_FINITE((ep)->qstart_time) && EP_FINITE((ep)->timestamp) && (ep)->frame_length > 0 && (ep)->frame_length <= 1.0 \
    && EP_FINITE((ep)->speech_start) && EP_FINITE((ep)->speech_end))
#define EP_FINITE(x) ((x) >= 0.0) /* not NaN; inductive under x += frame_length */
#define EP_WITNESS_OK (0 <= verif_w && verif_w < EP_MAXLEN && 0 <= verif_k && verif_k < EP_FS)
#define EP_FLAGS01(ep) ((ep)->is_speech[verif_w] == 0 || (ep)->is_speech[verif_w] == 1)
#define EP_SAMPLE(ep, slot, k) ((ep)->buf[(slot) * EP_FS + (k)])

#ifdef SSW_CBMC
#ifdef EP_SYMBOLIC_MAXLEN
/* index-level groups never touch the sample buffer; a symbolic product as is_fresh size trips the contract library
 * (car_create "writable up to size" fails spuriously), so only the flag array is materialised */
#define WF_EP_FRESH(ep) __CPROVER_is_fresh(ep, sizeof(*ep)) && EP_VALS(ep) && EP_GHOST_OK(ep) && EP_TIMES(ep) \
    && __CPROVER_is_fresh(ep->is_speech, (size_t)EP_MAXLEN) && EP_WITNESS_OK
#else
#define WF_EP_FRESH(ep) __CPROVER_is_fresh(ep, sizeof(*ep)) && EP_VALS(ep) && EP_GHOST_OK(ep) && EP_TIMES(ep) \
    && __CPROVER_is_fresh(ep->buf, sizeof(int16) * (size_t)EP_MAXLEN * EP_FS) && __CPROVER_is_fresh(ep->is_speech, (size_t)EP_MAXLEN) \
    && EP_WITNESS_OK
#endif

static int ep_empty(endpointer_t *ep)
__CPROVER_requires(__CPROVER_is_fresh(ep, sizeof(*ep)))
__CPROVER_assigns()
__CPROVER_ensures(__CPROVER_return_value == (ep->n == 0))
;
static int ep_full(endpointer_t *ep)
__CPROVER_requires(__CPROVER_is_fresh(ep, sizeof(*ep)))
__CPROVER_assigns()
__CPROVER_ensures(__CPROVER_return_value == (ep->n == ep->maxlen))
;

/* FIFO push: written slot is (pos+n) mod maxlen, the oldest frame is dropped only when full, the written slot holds
 * the input frame (witness sample) and flag, every other slot is unchanged (witness slot). */
static int ep_push(endpointer_t *ep, int is_speech, const int16 *frame)
__CPROVER_requires(WF_EP_FRESH(ep))
__CPROVER_requires(__CPROVER_is_fresh(frame, sizeof(int16) * EP_FS))
__CPROVER_requires(is_speech == 0 || is_speech == 1)
__CPROVER_assigns(ep->n, ep->pos, ep->qstart_time, ep->verif_pushed, ep->verif_dropped, __CPROVER_object_whole(ep->buf), __CPROVER_object_whole(ep->is_speech))
/* every qstart_time += frame_length goes with one dropped frame (same fold: time of the oldest queued frame) */
__CPROVER_ensures(ep->verif_pushed == __CPROVER_old(ep->verif_pushed) + 1)
__CPROVER_ensures(ep->verif_dropped == __CPROVER_old(ep->verif_dropped) + (__CPROVER_old(ep->n) == EP_MAXLEN ? 1 : 0))
__CPROVER_ensures(ep->n == (__CPROVER_old(ep->n) == EP_MAXLEN ? EP_MAXLEN : __CPROVER_old(ep->n) + 1))
__CPROVER_ensures(ep->pos == (__CPROVER_old(ep->n) == EP_MAXLEN ? EP_NEXT(__CPROVER_old(ep->pos)) : __CPROVER_old(ep->pos)))
__CPROVER_ensures(__CPROVER_return_value == ep->n)
__CPROVER_ensures(EP_SAMPLE(ep, EP_SLOT(__CPROVER_old(ep->pos), __CPROVER_old(ep->n)), verif_k) == frame[verif_k])
__CPROVER_ensures(ep->is_speech[EP_SLOT(__CPROVER_old(ep->pos), __CPROVER_old(ep->n))] == is_speech)
__CPROVER_ensures(IMP(verif_w != EP_SLOT(__CPROVER_old(ep->pos), __CPROVER_old(ep->n)),
                      EP_SAMPLE(ep, verif_w, verif_k) == __CPROVER_old(EP_SAMPLE(ep, verif_w, verif_k))
                      && ep->is_speech[verif_w] == __CPROVER_old(ep->is_speech[verif_w])))
__CPROVER_ensures(ep->qstart_time == (__CPROVER_old(ep->n) == EP_MAXLEN ? __CPROVER_old(ep->qstart_time) + ep->frame_length : __CPROVER_old(ep->qstart_time)))
;

/* FIFO pop: the popped slot is pos, the returned pointer is buf + pos*frame_size, contents untouched. */
static int16 *ep_pop(endpointer_t *ep, int *out_is_speech)
__CPROVER_requires(WF_EP_FRESH(ep))
__CPROVER_requires(out_is_speech == NULL || __CPROVER_is_fresh(out_is_speech, sizeof(int)))
__CPROVER_assigns(ep->n, ep->pos, ep->qstart_time, ep->verif_dropped; out_is_speech != NULL: *out_is_speech)
__CPROVER_ensures(ep->verif_dropped == __CPROVER_old(ep->verif_dropped) + (__CPROVER_old(ep->n) > 0 ? 1 : 0))
__CPROVER_ensures(IMP(__CPROVER_old(ep->n) == 0, __CPROVER_return_value == NULL && ep->n == 0 && ep->pos == __CPROVER_old(ep->pos)
                      && ep->qstart_time == __CPROVER_old(ep->qstart_time)))
__CPROVER_ensures(IMP(__CPROVER_old(ep->n) > 0, __CPROVER_return_value == ep->buf + __CPROVER_old(ep->pos) * EP_FS
                      && ep->n == __CPROVER_old(ep->n) - 1 && ep->pos == EP_NEXT(__CPROVER_old(ep->pos))
                      && ep->qstart_time == __CPROVER_old(ep->qstart_time) + ep->frame_length))
__CPROVER_ensures(IMP(__CPROVER_old(ep->n) > 0 && out_is_speech != NULL, *out_is_speech == ep->is_speech[__CPROVER_old(ep->pos)]))
;

/* Counting loop: reads only is_speech[0..maxlen), result between 0 and n when flags are 0/1.
 * (The exact count is checked by the unwound group ep_speech_count_exact on small geometries.) */
static int ep_speech_count(endpointer_t *ep)
__CPROVER_requires(WF_EP_FRESH(ep))
__CPROVER_assigns(verif_last_count)
__CPROVER_ensures(__CPROVER_return_value == verif_last_count)
__CPROVER_ensures(IMP(ep->n == 0, __CPROVER_return_value == 0))
;

static void ep_linearize(endpointer_t *ep)
__CPROVER_requires(WF_EP_FRESH(ep))
__CPROVER_assigns(ep->pos, __CPROVER_object_whole(ep->buf), __CPROVER_object_whole(ep->is_speech))
__CPROVER_ensures(ep->pos == 0)
/* queue order preserved: new slot w holds what old slot (pos+w) mod maxlen held */
__CPROVER_ensures(EP_SAMPLE(ep, verif_w, verif_k) == __CPROVER_old(EP_SAMPLE(ep, EP_SLOT(ep->pos, verif_w), verif_k)))
__CPROVER_ensures(ep->is_speech[verif_w] == __CPROVER_old(ep->is_speech[EP_SLOT(ep->pos, verif_w)]))
;

/* assumed (WebRTC VAD, out of scope): classification is 0 or 1 and touches nothing the endpointer owns */
vad_class_t vad_classify(vad_t *vad, const short *frame)
__CPROVER_requires(vad != NULL)
__CPROVER_assigns()
__CPROVER_ensures(__CPROVER_return_value == 0 || __CPROVER_return_value == 1)
;
size_t vad_frame_size(vad_t *vad)
__CPROVER_requires(1)
__CPROVER_assigns()
__CPROVER_ensures(__CPROVER_return_value == (vad == NULL ? (size_t)-1 : (size_t)EP_FS))
;
int vad_sample_rate(vad_t *vad)
__CPROVER_requires(1)
__CPROVER_assigns()
__CPROVER_ensures(__CPROVER_return_value == (vad == NULL ? -1 : verif_vad_rate))
;

/* values of the queue geometry after the push that endpointer_process performs first */
#define P_FULL0 (__CPROVER_old(ep->n) == EP_MAXLEN)
#define P_N1 (P_FULL0 ? EP_MAXLEN : __CPROVER_old(ep->n) + 1)
#define P_POS1 (P_FULL0 ? EP_NEXT(__CPROVER_old(ep->pos)) : __CPROVER_old(ep->pos))
#define P_Q1 (P_FULL0 ? __CPROVER_old(ep->qstart_time) + ep->frame_length : __CPROVER_old(ep->qstart_time))
#define P_IN0 __CPROVER_old(ep->in_speech)

const int16 *endpointer_process(endpointer_t *ep, const int16 *frame)
__CPROVER_requires(WF_EP_FRESH(ep))
__CPROVER_requires(ep->vad != NULL && ep->verif_pushed <= 1000000000000000000L)
__CPROVER_requires(IMP(ep->in_speech, ep->n < EP_MAXLEN))
__CPROVER_requires(__CPROVER_is_fresh(frame, sizeof(int16) * EP_FS))
__CPROVER_assigns(ep->n, ep->pos, ep->qstart_time, ep->timestamp, ep->in_speech, ep->speech_start, ep->speech_end,
                  ep->verif_pushed, ep->verif_dropped,
                  __CPROVER_object_whole(ep->buf), __CPROVER_object_whole(ep->is_speech), verif_last_count)
/* exactly one push per call (timestamp advances with it), at most one pop; a frame leaves the queue exactly once */
__CPROVER_ensures(ep->timestamp == __CPROVER_old(ep->timestamp) + ep->frame_length)
__CPROVER_ensures(ep->verif_pushed == __CPROVER_old(ep->verif_pushed) + 1)
__CPROVER_ensures(ep->verif_dropped == __CPROVER_old(ep->verif_dropped) + (P_FULL0 ? 1 : 0) + (__CPROVER_return_value != NULL ? 1 : 0))
__CPROVER_ensures(ep->n == ep->verif_pushed - ep->verif_dropped)
__CPROVER_ensures(IMP(__CPROVER_return_value == NULL, ep->n == P_N1 && ep->pos == P_POS1))
__CPROVER_ensures(IMP(__CPROVER_return_value != NULL, ep->n == P_N1 - 1 && ep->pos == EP_NEXT(P_POS1)))
/* the returned frame is the oldest frame of the queue */
__CPROVER_ensures(IMP(__CPROVER_return_value != NULL, __CPROVER_return_value == ep->buf + P_POS1 * EP_FS))
/* state machine: start only after MORE than start_frames of the window are speech, end once FEWER than end_frames are */
__CPROVER_ensures(ep->in_speech == 0 || ep->in_speech == 1)
__CPROVER_ensures(IMP(!P_IN0 && ep->in_speech, verif_last_count > ep->start_frames))
__CPROVER_ensures(IMP(!P_IN0 && !ep->in_speech, verif_last_count <= ep->start_frames))
__CPROVER_ensures(IMP(P_IN0 && !ep->in_speech, verif_last_count < ep->end_frames))
__CPROVER_ensures(IMP(P_IN0 && ep->in_speech, verif_last_count >= ep->end_frames))
/* a frame is returned iff we are in speech or have just left it */
__CPROVER_ensures((__CPROVER_return_value != NULL) == (ep->in_speech || P_IN0))
/* timestamps.  qstart_time is the stream time of the oldest queued frame (it advances by frame_length exactly when a
 * frame is dropped or popped: contracts of ep_push/ep_pop).  On a start the first returned frame is that oldest frame,
 * so after its pop qstart_time == speech_start + frame_length; on an end speech_end is the time just after the
 * returned frame, i.e. the new qstart_time. */
__CPROVER_ensures(IMP(!P_IN0 && ep->in_speech, ep->speech_start + ep->frame_length == ep->qstart_time))
__CPROVER_ensures(IMP(!(!P_IN0 && ep->in_speech), ep->speech_start == __CPROVER_old(ep->speech_start)))
__CPROVER_ensures(IMP(P_IN0 && !ep->in_speech, ep->speech_end == ep->qstart_time))
__CPROVER_ensures(IMP(ep->in_speech, ep->n < EP_MAXLEN))
__CPROVER_ensures(EP_VALS(ep))
;

#ifndef EP_SYMBOLIC_MAXLEN
/* ending the stream: the queued speech frames (in queue order, from slot 0 after linearisation) plus the trailing
 * partial frame, copied right behind them INSIDE the buffer; the queue is left empty */
const int16 *endpointer_end_stream(endpointer_t *ep, const int16 *frame, size_t nsamp, size_t *out_nsamp)
__CPROVER_requires(WF_EP_FRESH(ep) && ep->vad != NULL && IMP(ep->in_speech, ep->n < EP_MAXLEN))
__CPROVER_requires(__CPROVER_is_fresh(frame, sizeof(int16) * EP_FS) && __CPROVER_is_fresh(out_nsamp, sizeof(size_t)))
__CPROVER_requires(verif_vad_rate >= 8000 && verif_vad_rate <= 48000)
/* stream times small enough that adding one frame length is never absorbed by rounding (31 years of audio) */
__CPROVER_requires(ep->qstart_time <= 1.0e9 && ep->frame_length >= 0.001)
__CPROVER_assigns(ep->n, ep->pos, ep->qstart_time, ep->timestamp, ep->in_speech, ep->speech_end, ep->verif_dropped, *out_nsamp,
                  __CPROVER_object_whole(ep->buf), __CPROVER_object_whole(ep->is_speech))
__CPROVER_ensures(IMP(nsamp > EP_FS, __CPROVER_return_value == NULL && ep->n == __CPROVER_old(ep->n) && ep->in_speech == __CPROVER_old(ep->in_speech)))
__CPROVER_ensures(IMP(nsamp <= EP_FS && !__CPROVER_old(ep->in_speech), __CPROVER_return_value == NULL && *out_nsamp == 0 && ep->n == __CPROVER_old(ep->n)))
__CPROVER_ensures(IMP(nsamp <= EP_FS && __CPROVER_old(ep->in_speech), __CPROVER_return_value == ep->buf && ep->in_speech == 0 && ep->n == 0))
/* never more than what was queued plus the trailing samples; whole frames plus (possibly) the trailing partial one */
__CPROVER_ensures(IMP(nsamp <= EP_FS && __CPROVER_old(ep->in_speech), *out_nsamp <= (size_t)__CPROVER_old(ep->n) * EP_FS + nsamp
                      && (*out_nsamp % EP_FS == 0 || *out_nsamp == (size_t)__CPROVER_old(ep->n) * EP_FS + nsamp)))
;
#endif
#endif
#endif
