/* Map view of one per-state null-transition table of an FSG (DESIGN 2.15, 4/C13).  Included BEFORE src/fsg_model.c.
 * The hash table under trans[from].null_trans is replaced by its abstract map, observed at ONE witness key verif_mk
 * (the destination state); since the witness is arbitrary the statements hold for every key.  The map view itself is
 * what C20 checks on the real hash table. */
#ifndef FSG_MODEL_GHOST_H
#define FSG_MODEL_GHOST_H
#include <soundswallower/fsg_model.h>
#include <soundswallower/err.h>
hash_table_t verif_ht_obj;      /* the table object */
int32 verif_mk;                 /* witness key (a destination state) */
int verif_mpresent;             /* is the witness key bound? */
fsg_link_t verif_mlink;         /* the link bound to the witness key */
fsg_link_t verif_other;         /* the link bound to any other key that is looked up */
int verif_entered;              /* number of enter() calls, last key and value */
int32 verif_entered_key;
void *verif_entered_val;
fsg_link_t verif_newlink;       /* the object returned by the link allocator */
#ifdef SSW_CBMC
int32 hash_table_lookup_bkey(hash_table_t *h, const char *key, size_t len, void **val)
__CPROVER_requires(h == &verif_ht_obj && len == sizeof(int32) && __CPROVER_r_ok(key, len) && __CPROVER_w_ok(val, sizeof(void *)))
__CPROVER_assigns(*val)
__CPROVER_ensures(IMP(*(const int32 *)key == verif_mk, (__CPROVER_return_value == 0) == (verif_mpresent != 0)))
__CPROVER_ensures(__CPROVER_return_value == 0 || __CPROVER_return_value == -1)
__CPROVER_ensures(IMP(__CPROVER_return_value == 0, __CPROVER_pointer_equals(*val, *(const int32 *)key == verif_mk ? (void *)&verif_mlink : (void *)&verif_other)))
;
void *hash_table_enter_bkey(hash_table_t *h, const char *key, size_t len, void *val)
__CPROVER_requires(h == &verif_ht_obj && len == sizeof(int32) && __CPROVER_r_ok(key, len))
/* enter() is only legal here for an absent key: a duplicate would be refused and the new link leaked */
__CPROVER_requires(*(const int32 *)key != verif_mk || !verif_mpresent)
__CPROVER_assigns(verif_entered, verif_entered_key, verif_entered_val)
__CPROVER_ensures(verif_entered == __CPROVER_old(verif_entered) + 1 && verif_entered_key == *(const int32 *)key && verif_entered_val == val)
__CPROVER_ensures(__CPROVER_return_value == val)
;
hash_table_t *hash_table_new(int32 size, int32 casearg)
__CPROVER_requires(size > 0) __CPROVER_assigns() __CPROVER_ensures(__CPROVER_return_value == &verif_ht_obj);
void *__listelem_malloc__(listelem_alloc_t *le, char *file, int line)
__CPROVER_requires(1) __CPROVER_assigns() __CPROVER_ensures(__CPROVER_return_value == &verif_newlink);
void err_msg(err_lvl_t lvl, const char *path, long ln, const char *fmt, ...)
__CPROVER_requires(1) __CPROVER_assigns() __CPROVER_ensures(1);
#endif
#endif
