/* Contracts for src/logmath.c (C19).  Included AFTER the source (struct logmath_s is defined there). */
#ifndef LOGMATH_CONTRACTS_H
#define LOGMATH_CONTRACTS_H

/* ghost: the largest table entry (= entry 0 = round(log_b 2) >> shift for a table built by logmath_init) */
int verif_T0;

#define LM_ABSD(x, y) ((x) > (y) ? (x) - (y) : (y) - (x))
#define LM_MAX(x, y) ((x) > (y) ? (x) : (y))
#define LM_TBL(t, d) ((t)->width == 1 ? (uint32)((uint8 *)(t)->table)[d] \
                      : (t)->width == 2 ? (uint32)((uint16 *)(t)->table)[d] : ((uint32 *)(t)->table)[d])

/* representation invariant of a table-backed logmath_t, minus the table contents */
#define WF_LOGMATH(l) (((l)->t.width == 1 || (l)->t.width == 2 || (l)->t.width == 4) \
    && (l)->t.table_size >= 1 && (l)->t.table_size <= 4000000 \
    && (l)->t.shift >= 0 && (l)->t.shift <= 8 && (l)->zero == ((int)0x80000000 >> ((l)->t.shift + 2)))
/* documented argument domain: |log values| small enough that x - y cannot wrap ("shift this sufficiently that
 * overflows can be avoided", logmath.c:83) */
#define LM_DOMAIN(l, x) ((x) <= -(l)->zero)
/* table invariant instantiated at the one index the call reads (DESIGN 4/C19): entry <= entry 0 == verif_T0.
 * The invariant itself is established by logmath_init and checked exhaustively by native/logtable.c. */
#define LM_BOTH(l, x, y) ((x) > (l)->zero && (y) > (l)->zero)
#define LM_INTBL(l, x, y) (LM_BOTH(l, x, y) && (size_t)LM_ABSD(x, y) < (l)->t.table_size)
#define LM_TBL_INV_AT(l, x, y) IMP(LM_INTBL(l, x, y), LM_TBL(&(l)->t, LM_ABSD(x, y)) <= (uint32)verif_T0)

#define POST_ADD_ZERO_X(l, x, y, r) IMP((x) <= (l)->zero, (r) == (y))
#define POST_ADD_ZERO_Y(l, x, y, r) IMP((x) > (l)->zero && (y) <= (l)->zero, (r) == (x))
#define POST_ADD_BOUNDS(l, x, y, r) IMP(LM_BOTH(l, x, y), (r) >= LM_MAX(x, y) && (r) <= LM_MAX(x, y) + verif_T0)
#define POST_ADD_FAR(l, x, y, r) IMP(LM_BOTH(l, x, y) && (size_t)LM_ABSD(x, y) >= (l)->t.table_size, (r) == LM_MAX(x, y))
#define POST_ADD_EXACT(l, x, y, r) IMP(LM_INTBL(l, x, y), (r) == LM_MAX(x, y) + (int)LM_TBL(&(l)->t, LM_ABSD(x, y)))

#ifdef SSW_CBMC
int logmath_add(logmath_t *lmath, int logb_x, int logb_y)
__CPROVER_requires(__CPROVER_is_fresh(lmath, sizeof(*lmath)))
__CPROVER_requires(WF_LOGMATH(lmath))
__CPROVER_requires(__CPROVER_is_fresh(lmath->t.table, (size_t)lmath->t.table_size * lmath->t.width))
__CPROVER_requires(LM_DOMAIN(lmath, logb_x) && LM_DOMAIN(lmath, logb_y))
__CPROVER_requires(verif_T0 >= 0 && verif_T0 <= 100000000)
__CPROVER_requires(LM_TBL_INV_AT(lmath, logb_x, logb_y))
__CPROVER_assigns()
__CPROVER_ensures(POST_ADD_ZERO_X(lmath, logb_x, logb_y, __CPROVER_return_value))
__CPROVER_ensures(POST_ADD_ZERO_Y(lmath, logb_x, logb_y, __CPROVER_return_value))
__CPROVER_ensures(POST_ADD_BOUNDS(lmath, logb_x, logb_y, __CPROVER_return_value))
__CPROVER_ensures(POST_ADD_FAR(lmath, logb_x, logb_y, __CPROVER_return_value))
__CPROVER_ensures(POST_ADD_EXACT(lmath, logb_x, logb_y, __CPROVER_return_value))
;

int logmath_get_zero(logmath_t *lmath)
__CPROVER_requires(__CPROVER_is_fresh(lmath, sizeof(*lmath)))
__CPROVER_assigns()
__CPROVER_ensures(__CPROVER_return_value == lmath->zero)
;

/* log(): libm, uninterpreted by CBMC (any double).  The integer clause of logmath_log: non-positive
 * probabilities map to log-zero. */
int logmath_log(logmath_t *lmath, float64 p)
__CPROVER_requires(__CPROVER_is_fresh(lmath, sizeof(*lmath)))
__CPROVER_requires(lmath->t.shift >= 0 && lmath->t.shift <= 8)
__CPROVER_assigns()
__CPROVER_ensures(IMP(p <= 0, __CPROVER_return_value == lmath->zero))
;
#endif
#endif
