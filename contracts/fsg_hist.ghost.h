/* Ghost-cell view of the FSG history table (DESIGN 2.4, 2.12, 4/C01).
 * Included BEFORE src/fsg_search.c (the loop annotations mention the ghost statics).
 *
 * The table is unbounded, so it is never materialised: the accessor contract writes "the entry with index id" into
 * one static cell and returns its address.  The content is arbitrary subject to the element invariant
 * WF_HIST_ENTRY (what the producer side establishes), and equal to the witness entry verif_wit/verif_wlink
 * whenever id == verif_w.  Since verif_w is arbitrary, facts proved about it hold for every index.
 * Soundness condition (by inspection, listed as an assumption): the caller never reads through a pointer older than
 * the most recent accessor call.                                                                                  */
#ifndef FSG_HIST_GHOST_H
#define FSG_HIST_GHOST_H
#include <soundswallower/fsg_history.h>
#include <soundswallower/err.h>

fsg_hist_entry_t verif_cell;   /* the entry most recently fetched */
fsg_hist_entry_t verif_cell0;  /* (producer-side cell for entry 0; named by an always-injected ghost statement in fsg_search_null_prop) */
fsg_link_t verif_lcell;        /* its link (when it has one) */
int32 verif_cell_id;
fsg_hist_entry_t verif_wit;    /* witness entry: content of index verif_w (verif_w is declared in ssw_ghost.h) */
fsg_link_t verif_wlink;
int32 verif_hist_n;            /* number of entries */
fsg_history_t *verif_h;        /* the history object the view belongs to */
int32 verif_nstate;            /* number of states of the active grammar */

#define HIST_SCORE_OK(x) ((x) >= -0x30000000 && (x) <= 0x30000000) /* path scores: WORST_SCORE = -2^29 up to renormalised positives */

#ifdef SSW_CBMC
int32 fsg_history_n_entries(fsg_history_t *h)
__CPROVER_requires(h == verif_h)
__CPROVER_assigns()
__CPROVER_ensures(__CPROVER_return_value == verif_hist_n)
;

fsg_hist_entry_t *fsg_history_entry_get(fsg_history_t *h, int32 id)
__CPROVER_requires(h == verif_h && 0 <= id && id < verif_hist_n)
__CPROVER_assigns(verif_cell, verif_lcell, verif_cell_id)
__CPROVER_ensures(__CPROVER_return_value == &verif_cell && verif_cell_id == id)
/* element invariant WF_HIST_ENTRY: only entry 0 (the dummy) has no link; pred < id; frames >= -1 */
__CPROVER_ensures(verif_cell.fsglink == NULL || __CPROVER_pointer_equals(verif_cell.fsglink, &verif_lcell))
__CPROVER_ensures((id == 0) == (verif_cell.fsglink == NULL))
__CPROVER_ensures(verif_cell.frame >= -1 && verif_cell.frame <= 0x3fffffff && verif_cell.pred >= -1 && verif_cell.pred < id && HIST_SCORE_OK(verif_cell.score))
__CPROVER_ensures(IMP(id == 0, verif_cell.frame == -1 && verif_cell.score == 0 && verif_cell.pred == -1))
__CPROVER_ensures(IMP(id > 0, verif_cell.pred >= 0))
__CPROVER_ensures(IMP(id == verif_w, verif_cell.frame == verif_wit.frame && verif_cell.score == verif_wit.score && verif_cell.pred == verif_wit.pred
    && ((verif_cell.fsglink == NULL) == (verif_wit.fsglink == NULL))
    && (verif_cell.fsglink == NULL || (verif_lcell.to_state == verif_wlink.to_state && verif_lcell.from_state == verif_wlink.from_state
                                        && verif_lcell.wid == verif_wlink.wid && verif_lcell.logs2prob == verif_wlink.logs2prob))))
;
#endif
#endif
