/* Contracts for src/hash_table.c (C20): array-loop functions (proof) -- the chain functions are checked by the
 * bounded constructive harnesses in harness/C20_hash.c. */
#ifndef HASH_TABLE_CONTRACTS_H
#define HASH_TABLE_CONTRACTS_H

#define HT_MAXKEY 2000
/* equality of one byte under the table's case mode, taken from the property statement (ASCII case folding) */
#define SPEC_BYTE_EQ(a, b, nocase) ((nocase) ? SPEC_UP(a) == SPEC_UP(b) : (a) == (b))

#ifdef SSW_CBMC

static uint32 key2hash(hash_table_t *h, const char *key)
__CPROVER_requires(__CPROVER_is_fresh(h, sizeof(*h)) && h->size >= 1)
__CPROVER_requires(verif_keylen <= HT_MAXKEY && __CPROVER_is_fresh(key, verif_keylen + 1) && key[verif_keylen] == 0)
__CPROVER_assigns()
__CPROVER_ensures(__CPROVER_return_value < (uint32)h->size)
;

/* 0 is returned only if the len bytes agree (witness byte verif_k): together with the bounded exact-equivalence
 * group this is "equal keys compare equal, different keys do not"; reads stay inside the two len-byte objects. */
static int32 keycmp_case(hash_entry_t *entry, const char *key)
__CPROVER_requires(__CPROVER_is_fresh(entry, sizeof(*entry)) && entry->len <= HT_MAXKEY)
__CPROVER_requires(__CPROVER_is_fresh(entry->key, entry->len) && __CPROVER_is_fresh(key, entry->len))
__CPROVER_requires(0 <= verif_k && (size_t)verif_k < entry->len)
__CPROVER_assigns()
__CPROVER_ensures(IMP(__CPROVER_return_value == 0, entry->key[verif_k] == key[verif_k]))
;
static int32 keycmp_nocase(hash_entry_t *entry, const char *key)
__CPROVER_requires(__CPROVER_is_fresh(entry, sizeof(*entry)) && entry->len <= HT_MAXKEY)
__CPROVER_requires(__CPROVER_is_fresh(entry->key, entry->len) && __CPROVER_is_fresh(key, entry->len))
__CPROVER_requires(0 <= verif_k && (size_t)verif_k < entry->len)
__CPROVER_assigns()
__CPROVER_ensures(IMP(__CPROVER_return_value == 0, SPEC_UP(entry->key[verif_k]) == SPEC_UP(key[verif_k])))
;

/* binary key -> printable key: writes exactly 2*len+1 bytes, two letters per byte, injective per byte */
static char *makekey(uint8 *data, size_t len, char *key)
__CPROVER_requires(len <= HT_MAXKEY && __CPROVER_is_fresh(data, len) && __CPROVER_is_fresh(key, 2 * len + 1))
__CPROVER_requires(0 <= verif_k && (size_t)verif_k < len)
__CPROVER_assigns(__CPROVER_object_whole(key))
__CPROVER_ensures(__CPROVER_return_value == key && key[2 * len] == 0)
__CPROVER_ensures(key[2 * verif_k] == 'A' + (data[verif_k] & 15) && key[2 * verif_k + 1] == 'J' + (data[verif_k] >> 4))
;
#endif
#endif
