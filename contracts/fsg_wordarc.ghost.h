/* Producer-side ghost view for the WORD arcs of the history table (C01 path connectivity, C02 "each weight used once",
 * C03 predecessor / frame of a word exit).  Included BEFORE src/fsg_search.c.
 *
 * The invariant carried through the lextree (HIST_SRC): every history id stored in an HMM of a lextree node that
 * belongs to the lextree of grammar state S refers to a history entry whose arc ENTERS S.  Stated for one arbitrary
 * history id verif_w (declared in ssw_ghost.h) whose destination state is the rigid ghost value verif_w_dest: since
 * verif_w is arbitrary, what is proved for it holds for every id.  Table entries are immutable once they have an id
 * (fsg_history_end_frame assigns ids, nothing rewrites them), so verif_w_dest does not change.
 *
 *   HIST_SRC(hmm, S)  :=  for every slot x of hmm (history[0..4], out_history):  x == verif_w  ==>  verif_w_dest == S
 *
 * Steps (each one function contract on the real code):
 *   fsg_search_word_trans : a root of the lextree of d = dest(entry(bpidx)) is entered with history bpidx  -> HIST_SRC kept
 *   hmm_vit_eval_3st_lr(_mpx) : new history slots are copies of old slots of the same HMM (C02 contracts) -> HIST_SRC kept
 *   fsg_search_pnode_trans: a child (same lextree, same S) is entered with the parent's out_history        -> HIST_SRC kept
 *   fsg_search_pnode_exit : the entry added has link fl with fl->from_state == S and pred == out_history   -> the
 *                           path-connectivity precondition of fsg_history_entry_add (link leaves the state pred entered)
 * ASSUMED lextree structure (fsg_lextree.c is not under contract): roots of state d, and all their descendants,
 * belong to the lextree of d; a leaf's fsglink leaves d.  Expressed through the ghost static verif_psrc. */
#ifndef FSG_WORDARC_GHOST_H
#define FSG_WORDARC_GHOST_H
#include <soundswallower/fsg_history.h>
#include <soundswallower/fsg_lextree.h>
#include <soundswallower/dict.h>
#include <soundswallower/err.h>
#include <soundswallower/hmm.h>

/* names used by always-injected ghost statements of other groups in fsg_search.c */
fsg_hist_entry_t verif_cell, verif_cell0; int32 verif_cell_id; fsg_link_t verif_lcell;
fsg_hist_entry_t verif_wit; fsg_link_t verif_wlink;
int32 verif_hist_n; fsg_history_t *verif_h; fsg_model_t *verif_fsg;
fsg_link_t verif_acell; int32 verif_arc_state; int verif_arc_live; int verif_added;

int32 verif_w_dest;     /* destination state of history entry verif_w */
int32 verif_psrc;       /* grammar state whose lextree holds the node(s) under consideration */
/* record of fsg_history_entry_add calls */
unsigned long verif_add_n; fsg_link_t *verif_add_link; int32 verif_add_frame, verif_add_score, verif_add_pred, verif_add_lc;
fsg_pnode_ctxt_t verif_add_rc;
fsg_link_t *verif_fl;   /* the grammar arc of the leaf under consideration */
int32 verif_dictwid;    /* last value returned by dict_wordid */
/* record of activations (glist_add_ptr on pnode_active_next) */
unsigned long verif_act_n; void *verif_act_last;
/* the lextree node list cell (one arbitrary node of a sibling chain) */
fsg_pnode_t verif_pcell;

#define HIST_SRC_SLOT(x, S) IMP((x) == verif_w, verif_w_dest == (S))
#define HIST_SRC(h, S) (HIST_SRC_SLOT((h).history[0], S) && HIST_SRC_SLOT((h).history[1], S) && HIST_SRC_SLOT((h).history[2], S) \
                        && HIST_SRC_SLOT((h).history[3], S) && HIST_SRC_SLOT((h).history[4], S) && HIST_SRC_SLOT((h).out_history, S))
#define CTXT_ALL(c) ((c).bv[0] == 0xffffffffu && (c).bv[1] == 0xffffffffu && (c).bv[2] == 0xffffffffu && (c).bv[3] == 0xffffffffu)
#define CTXT_EQ(a, b) ((a).bv[0] == (b).bv[0] && (a).bv[1] == (b).bv[1] && (a).bv[2] == (b).bv[2] && (a).bv[3] == (b).bv[3])

/* ---- loop vocabulary of fsg_search_pnode_trans (annotations pnode_trans.children in src/fsg_search.c) ---- */
int32 verif_tr_in_before, verif_tr_hist_before, verif_tr_frame_before; unsigned long verif_tr_actn_before;
#define PCELL_OK (verif_pcell.sibling == NULL || verif_pcell.sibling == &verif_pcell) \
                 && verif_pcell.logs2prob <= 0 && verif_pcell.logs2prob >= -(1 << 28) && verif_pcell.ci_ext < 128
#define VERIF_PT_ASSIGNS verif_pcell, verif_act_n, verif_act_last, fsgs->pnode_active_next, verif_tr_in_before, verif_tr_hist_before, verif_tr_frame_before, verif_tr_actn_before
#define VERIF_PT_INV(child) (((child) == NULL || (child) == &verif_pcell) && PCELL_OK && HIST_SRC(verif_pcell.hmm, verif_psrc))
#define VERIF_ENTER_PRE(node) { PTR_HINT(node, &verif_pcell); verif_tr_in_before = (node)->hmm.score[0]; verif_tr_hist_before = (node)->hmm.history[0]; \
                                   verif_tr_frame_before = (node)->hmm.frame; verif_tr_actn_before = verif_act_n; }
/* what one transition into `node` must have done, given the candidate score cand and back-pointer hist */
#define VERIF_ENTER_POST(node, allowed, cand, hist, thresh, nf) { \
    if ((allowed) && (cand) > (thresh) && (cand) > verif_tr_in_before) { \
        SSW_ASSERT((node)->hmm.score[0] == (cand) && (node)->hmm.history[0] == (hist) && (node)->hmm.frame == (nf), \
                   "node entered with exactly the candidate score (source score plus the node's arc weight, once), the source's back-pointer, the next frame"); \
        SSW_ASSERT(verif_act_n == verif_tr_actn_before + (verif_tr_frame_before < (nf) ? 1 : 0) && IMP(verif_tr_frame_before < (nf), verif_act_last == (void *)(node)), \
                   "node put on the next frame's active list exactly when it was not there yet"); \
    } else { \
        SSW_ASSERT((node)->hmm.score[0] == verif_tr_in_before && (node)->hmm.history[0] == verif_tr_hist_before && (node)->hmm.frame == verif_tr_frame_before \
                   && verif_act_n == verif_tr_actn_before, "a transition that is pruned, not better, or not allowed by the phonetic context leaves the node untouched"); \
    } }
#define VERIF_PT_PRE(child) VERIF_ENTER_PRE(child)
#define VERIF_PT_POST(child, hmm, thresh, nf) VERIF_ENTER_POST(child, 1, (hmm)->out_score + (child)->logs2prob, (hmm)->out_history, thresh, nf)

/* ---- loop vocabulary of fsg_search_word_trans (annotations word_trans.entries / word_trans.roots) ---- */
int32 verif_cur_frame, verif_bp_start; struct fsg_lextree_s *verif_lt;
#define WT_DEST(id) ((id) == 0 ? verif_fsg->start_state : verif_lcell.to_state)
/* phone c is in the context set */
#define CTXT_HAS(set, c) ((((set).bv[(c) / 32] >> ((c) % 32)) & 1u) != 0)
#define VERIF_WT_INNER_ASSIGNS verif_pcell, verif_act_n, verif_act_last, fsgs->pnode_active_next, verif_tr_in_before, verif_tr_hist_before, verif_tr_frame_before, verif_tr_actn_before
#define VERIF_WT_ASSIGNS VERIF_WT_INNER_ASSIGNS, verif_cell, verif_cell0, verif_lcell, verif_cell_id, verif_psrc
#define VERIF_WT_OUTER_INV (verif_cell0.fsglink == NULL && verif_cell.fsglink == &verif_lcell)
#define VERIF_WT_INNER_INV(root, e, bpidx, d) (((root) == NULL || (root) == &verif_pcell) && PCELL_OK && verif_psrc == (d) && HIST_SRC(verif_pcell.hmm, verif_psrc) \
        && (e) == ((bpidx) == 0 ? &verif_cell0 : &verif_cell) && verif_cell_id == (bpidx) && VERIF_WT_OUTER_INV && IMP((bpidx) == verif_w, verif_w_dest == (d)))
/* INSTANTIATION OF AN ASSUMED UNIVERSAL PRECONDITION (the node set of a lextree is unbounded, so it cannot be written as
 * a requires clause): every node n on the root list of grammar state d belongs to the lextree of d and satisfies
 * HIST_SRC(n.hmm, d); arc weights are log probabilities; context phones are < 128.  The cell gets arbitrary content
 * subject to exactly that. */
#define VERIF_WT_ROOTS(d) { fsg_pnode_t verif_nd; _Bool verif_nb; verif_psrc = (d); verif_pcell = verif_nd; verif_pcell.sibling = verif_nb ? &verif_pcell : NULL; \
                            __CPROVER_assume(PCELL_OK && HIST_SRC(verif_pcell.hmm, verif_psrc)); }
#define VERIF_WT_PRE(root, e, bpidx) { PTR_HINT(e, (bpidx) == 0 ? &verif_cell0 : &verif_cell); VERIF_ENTER_PRE(root); }
/* a history entry enters a root exactly when the entry's last phone is a left context the root serves and the root's
 * first phone is a right context the entry serves; then with the entry's score plus the root's arc weight, once */
#define VERIF_WT_POST(root, e, score, lc, rc, bpidx, thresh, nf) \
    VERIF_ENTER_POST(root, CTXT_HAS((root)->ctxt, (e)->lc) && CTXT_HAS((e)->rc, (root)->ci_ext), (e)->score + (root)->logs2prob, bpidx, thresh, nf)

/* ---- loop vocabulary of fsg_search_hmm_prune_prop (annotation prune_prop.active): the active list is seen through one
 * list cell (verif_gcell) whose node is one node cell (verif_ncell), both arbitrary at every step subject to the invariant */
fsg_pnode_t verif_ncell; gnode_t verif_gcell; unsigned long verif_trans_calls;
int32 verif_pp_frame_before; unsigned long verif_pp_add_before, verif_pp_trans_before;
#define VERIF_PT_ENTER() (verif_trans_calls++)
#define NCELL_OK(fsgs) ((verif_ncell.hmm.frame == (fsgs)->frame || verif_ncell.hmm.frame == (fsgs)->frame + 1) \
        && verif_ncell.hmm.out_score <= 0 && verif_ncell.hmm.out_score >= WORST_SCORE && HIST_SRC(verif_ncell.hmm, verif_psrc) \
        && (verif_ncell.leaf != 0 ? (void *)verif_ncell.next.succ == (void *)verif_fl : (verif_ncell.next.succ == NULL || verif_ncell.next.succ == &verif_pcell)))
#define VERIF_PP_ASSIGNS verif_ncell, verif_gcell, VERIF_PT_ASSIGNS, verif_trans_calls, verif_add_n, verif_add_link, verif_add_frame, verif_add_score, verif_add_pred, verif_add_lc, verif_add_rc, \
                         verif_dictwid, verif_pp_frame_before, verif_pp_add_before, verif_pp_trans_before
#define VERIF_PP_INV(gn) (((gn) == NULL || (gn) == &verif_gcell) && (verif_gcell.next == NULL || verif_gcell.next == &verif_gcell) && verif_gcell.data.ptr == (void *)&verif_ncell \
        && NCELL_OK(fsgs) && PCELL_OK && HIST_SRC(verif_pcell.hmm, verif_psrc) && 0 <= verif_dictwid && verif_dictwid < 8)
/* ASSUMED (tool limit, listed in the evidence): the payload pointer read back from the list node's anytype_t union
 * (void* / long / double) IS the node cell.  CBMC loses the pointer stored in that union (the proved form
 * PTR_HINT(pnode, &verif_ncell) fails with pnode == NULL although the invariant says data.ptr == &verif_ncell), so the
 * value is re-materialised WITHOUT proof; every node fact used below comes from the loop invariant NCELL_OK. */
#define VERIF_PP_PRE(gn, pnode) { PTR_HINT(gn, &verif_gcell); (pnode) = &verif_ncell; verif_pp_frame_before = (pnode)->hmm.frame; \
                                  verif_pp_add_before = verif_add_n; verif_pp_trans_before = verif_trans_calls; }
/* decision table of the beam pruning: a node stays active exactly when its best score is within the beam; only such a
 * node propagates; an inner node into its children exactly when its exit score is within the phone beam, a leaf into the
 * history table (one entry) exactly when its exit score is within the word beam */
#define VERIF_PP_POST(pnode, thresh, pth, wth) { \
    int verif_kept = (pnode)->hmm.bestscore >= (thresh); \
    SSW_ASSERT(verif_kept ? (pnode)->hmm.frame == fsgs->frame + 1 : (pnode)->hmm.frame == verif_pp_frame_before, "a node is kept active for the next frame exactly when its best score is within the beam"); \
    SSW_ASSERT(verif_trans_calls == verif_pp_trans_before + ((verif_kept && !(pnode)->leaf && (pnode)->hmm.out_score >= (pth)) ? 1 : 0), "phone transition exactly for kept inner nodes whose exit score is within the phone beam"); \
    SSW_ASSERT(verif_add_n == verif_pp_add_before + ((verif_kept && (pnode)->leaf && (pnode)->hmm.out_score >= (wth)) ? 1 : 0), "one word exit exactly for kept leaves whose exit score is within the word beam"); }

#ifdef SSW_CBMC
/* C01 producer obligation for word arcs = precondition of the (replaced) history insertion: the arc added after
 * predecessor pred leaves the state that entry(pred) entered.  The call is recorded for the callers' postconditions. */
void fsg_history_entry_add(fsg_history_t *h, fsg_link_t *l, int32 frame, int32 score, int32 pred, int32 lc, fsg_pnode_ctxt_t rc)
__CPROVER_requires(h == verif_h && l != NULL)
__CPROVER_requires(IMP(pred == verif_w, l->from_state == verif_w_dest))
__CPROVER_requires(l->wid >= 0)
__CPROVER_assigns(verif_add_n, verif_add_link, verif_add_frame, verif_add_score, verif_add_pred, verif_add_lc, verif_add_rc)
__CPROVER_ensures(verif_add_n == __CPROVER_old(verif_add_n) + 1 && verif_add_link == l && verif_add_frame == frame && verif_add_score == score
                  && verif_add_pred == pred && verif_add_lc == lc && CTXT_EQ(verif_add_rc, rc))
;

/* history table seen through two ghost cells (entry 0 has no link), as on the null-arc producer side.  ASSUMED: element
 * invariant of the table (destination state in range, scores in range, last phone < 128), entries from bpidx_start on
 * belong to the current frame (fsg_history_end_frame / fsg_search_step), and -- definition of the witness -- the entry
 * with id verif_w enters state verif_w_dest */
int32 fsg_history_n_entries(fsg_history_t *h)
__CPROVER_requires(h == verif_h) __CPROVER_ensures(__CPROVER_return_value == verif_hist_n) __CPROVER_assigns();

fsg_hist_entry_t *fsg_history_entry_get(fsg_history_t *h, int32 id)
__CPROVER_requires(h == verif_h && 0 <= id && id < verif_hist_n)
__CPROVER_assigns(verif_cell.score, verif_cell.pred, verif_cell.frame, verif_cell.lc, verif_cell.rc, verif_cell0.score, verif_cell0.frame, verif_cell0.lc, verif_cell0.rc, verif_lcell, verif_cell_id)
__CPROVER_ensures(__CPROVER_pointer_equals(__CPROVER_return_value, id == 0 ? &verif_cell0 : &verif_cell) && verif_cell_id == id)
__CPROVER_ensures(0 <= verif_lcell.to_state && verif_lcell.to_state < verif_fsg->n_state)
__CPROVER_ensures(verif_cell.score <= 0 && verif_cell.score >= WORST_SCORE && verif_cell0.score <= 0 && verif_cell0.score >= WORST_SCORE)
__CPROVER_ensures(verif_cell.lc >= 0 && verif_cell.lc < 128 && verif_cell0.lc >= 0 && verif_cell0.lc < 128)
__CPROVER_ensures(IMP(id >= verif_bp_start, verif_cell.frame == verif_cur_frame && verif_cell0.frame == verif_cur_frame))
__CPROVER_ensures(IMP(id == verif_w, WT_DEST(id) == verif_w_dest))
;
/* ASSUMED: every word of the active grammar is in the dictionary (fsg_search_check_dict refuses other grammars) */
s3wid_t dict_wordid(dict_t *d, const char *word)
__CPROVER_requires(d != NULL && word != NULL)
__CPROVER_assigns(verif_dictwid)
__CPROVER_ensures(__CPROVER_return_value == verif_dictwid && 0 <= verif_dictwid && verif_dictwid < 8)
;
/* proved on the real body in group pnode_add_all_ctxt */
void fsg_pnode_add_all_ctxt(fsg_pnode_ctxt_t *ctxt)
__CPROVER_requires(__CPROVER_w_ok(ctxt, sizeof(*ctxt)))
__CPROVER_assigns(*ctxt)
__CPROVER_ensures(CTXT_ALL(*ctxt))
;
/* activation list: only the count and the last node matter here (glist.c is not under contract) */
glist_t glist_add_ptr(glist_t g, void *ptr)
__CPROVER_requires(1)
__CPROVER_assigns(verif_act_n, verif_act_last)
__CPROVER_ensures(verif_act_n == __CPROVER_old(verif_act_n) + 1 && verif_act_last == ptr && __CPROVER_return_value != NULL)
;
#endif
#endif
