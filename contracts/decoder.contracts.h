/* Typestate contracts for the public decoder entry points (C09).  Included AFTER src/decoder.c.
 * Each contract selects an out-of-protocol (or no-search-module) case in its precondition and promises the documented
 * error value with an EMPTY frame.  Every state-changing callee has no body in these groups, so reaching one is a
 * failed "no body" obligation: "an out-of-order call changes nothing" is checked, not assumed. */
#ifndef DECODER_CONTRACTS_H
#define DECODER_CONTRACTS_H
#ifdef SSW_CBMC
#define DEC_FRESH(d) __CPROVER_is_fresh(d, sizeof(*d)) && __CPROVER_is_fresh(d->acmod, sizeof(*d->acmod))

/* audio before start or after end is refused, nothing is touched */
int decoder_process_int16(decoder_t *d, int16 *data, size_t n_samples, int no_search, int full_utt)
__CPROVER_requires(DEC_FRESH(d) && (d->acmod->state == ACMOD_IDLE || d->acmod->state == ACMOD_ENDED))
__CPROVER_assigns()
__CPROVER_ensures(__CPROVER_return_value <= 0)
;
int decoder_process_float32(decoder_t *d, float32 *data, size_t n_samples, int no_search, int full_utt)
__CPROVER_requires(DEC_FRESH(d) && (d->acmod->state == ACMOD_IDLE || d->acmod->state == ACMOD_ENDED))
__CPROVER_assigns()
__CPROVER_ensures(__CPROVER_return_value <= 0)
;
/* start twice */
int decoder_start_utt(decoder_t *d)
__CPROVER_requires(DEC_FRESH(d) && (d->acmod->state == ACMOD_STARTED || d->acmod->state == ACMOD_PROCESSING || d->search == NULL))
__CPROVER_assigns()
__CPROVER_ensures(__CPROVER_return_value == -1)
;
/* end without start */
int decoder_end_utt(decoder_t *d)
__CPROVER_requires(DEC_FRESH(d) && (d->acmod->state == ACMOD_IDLE || d->acmod->state == ACMOD_ENDED || d->search == NULL))
__CPROVER_assigns()
__CPROVER_ensures(__CPROVER_return_value == -1)
;
/* results requested with no grammar / search module: the documented null values */
const char *decoder_hyp(decoder_t *d, int32 *out_best_score)
__CPROVER_requires(DEC_FRESH(d) && d->search == NULL)
__CPROVER_assigns()
__CPROVER_ensures(__CPROVER_return_value == NULL)
;
seg_iter_t *decoder_seg_iter(decoder_t *d)
__CPROVER_requires(DEC_FRESH(d) && d->search == NULL)
__CPROVER_assigns()
__CPROVER_ensures(__CPROVER_return_value == NULL)
;
lattice_t *decoder_lattice(decoder_t *d)
__CPROVER_requires(DEC_FRESH(d) && d->search == NULL)
__CPROVER_assigns()
__CPROVER_ensures(__CPROVER_return_value == NULL)
;
#endif
#endif
