/* Contracts for the sample bookkeeping of src/fe_interface.c (C06).  Included AFTER the source.
 * Geometry is concrete per run (DESIGN 2.7): -DFE_FS=<frame_size> -DFE_SH=<frame_shift>, default the shipped 410/160. */
#ifndef FE_CONTRACTS_H
#define FE_CONTRACTS_H
#ifndef FE_FS
#define FE_FS 410
#endif
#ifndef FE_SH
#define FE_SH 160
#endif
#ifdef SSW_CBMC
#define WF_FE(fe) ((fe)->frame_size == FE_FS && (fe)->frame_shift == FE_SH && 0 <= (fe)->num_overflow_samps && (fe)->num_overflow_samps <= FE_FS)
/* frames obtainable from nsamps more samples: depends only on the number of samples buffered + offered */
static int output_frame_count(fe_t *fe, size_t nsamps)
__CPROVER_requires(__CPROVER_is_fresh(fe, sizeof(*fe)) && WF_FE(fe) && nsamps <= 0x7fffffff)
__CPROVER_assigns()
__CPROVER_ensures(__CPROVER_return_value >= 0)
__CPROVER_ensures(IMP(nsamps + fe->num_overflow_samps >= FE_FS,
                      __CPROVER_return_value >= 1 + (int)((nsamps + fe->num_overflow_samps - FE_FS) / FE_SH)
                      && __CPROVER_return_value <= 2 + (int)((nsamps + fe->num_overflow_samps - FE_FS) / FE_SH)))
__CPROVER_ensures(IMP(nsamps + fe->num_overflow_samps < FE_FS, __CPROVER_return_value <= 1))
;
/* not enough for a frame: every offered sample is moved to the overflow buffer, none is lost, none read twice */
static int overflow_append(fe_t *fe, void *inout_spch, size_t *inout_nsamps, fe_encoding_t encoding)
__CPROVER_requires(__CPROVER_is_fresh(fe, sizeof(*fe)) && WF_FE(fe) && __CPROVER_is_fresh(fe->overflow_samps, FE_FS * sizeof(float32)))
__CPROVER_requires(__CPROVER_is_fresh(inout_nsamps, sizeof(size_t)) && *inout_nsamps + fe->num_overflow_samps < FE_FS)
__CPROVER_requires(encoding == FE_FLOAT32 && __CPROVER_is_fresh(inout_spch, sizeof(float32 *)) && __CPROVER_is_fresh(*(float32 **)inout_spch, FE_FS * sizeof(float32)))
__CPROVER_assigns(fe->num_overflow_samps, __CPROVER_object_whole(fe->overflow_samps), *inout_nsamps, *(float32 **)inout_spch)
__CPROVER_ensures(__CPROVER_return_value == 0 && *inout_nsamps == 0)
__CPROVER_ensures(fe->num_overflow_samps == __CPROVER_old(fe->num_overflow_samps) + (int)__CPROVER_old(*inout_nsamps) && WF_FE(fe))
__CPROVER_ensures(*(float32 **)inout_spch == __CPROVER_old(*(float32 **)inout_spch) + __CPROVER_old(*inout_nsamps))
;
#endif
#endif
