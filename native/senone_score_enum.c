/* C18 native stand-in (bounded run; NOT a proof): "acoustic scores stay within their 16-bit range with the best score per
 * frame normalised to zero".  The real acoustic model (bundled en-us: PTM; fr-fr) scores every frame of a real recording
 * through acmod_score for randomly chosen active senone sets -- all senones of 1..6 random base phones, or everything --
 * and, as the two-pass search does, asks again for the frame it has just left (still inside the scorer's history) with a
 * DIFFERENT active set.  After every call: every active senone's score is in [0, 32767] (a wrapped 16-bit value shows up
 * as a negative score) and the best active score is exactly 0.
 */
#include <stdio.h>
#include <stdlib.h>
#include <string.h>
#include <soundswallower/acmod.h>
#include <soundswallower/bitvec.h>
#include <soundswallower/configuration.h>
#include <soundswallower/decoder.h>
#include <soundswallower/err.h>

static long cases, distinct, fails;
static unsigned lcg = 4711u;
static unsigned rnd(unsigned n) { lcg = lcg * 1103515245u + 12345u; return (lcg >> 16) % n; }

static void choose(acmod_t *am, char *desc, size_t dn)
{
    int nsen = bin_mdef_n_sen(am->mdef), nci = bin_mdef_n_ciphone(am->mdef), k, s, nph = 1 + (int)rnd(6), ph[6];
    size_t o = 0;
    acmod_clear_active(am);
    for (k = 0; k < nph; k++) { ph[k] = (int)rnd((unsigned)nci); o += (size_t)snprintf(desc + o, dn - o, "%s%s", k ? "," : "", bin_mdef_ciphone_str(am->mdef, ph[k])); }
    for (s = 0; s < nsen; s++) for (k = 0; k < nph; k++) if (bin_mdef_sen2cimap(am->mdef, s) == ph[k]) { bitvec_set(am->senone_active_vec, s); break; }
}

static void check(acmod_t *am, const int16 *scr, int frame, const char *model, const char *what, const char *set)
{
    int nsen = bin_mdef_n_sen(am->mdef), s, best = 1 << 30, neg = 0, nact = 0;
    cases++;
    if (scr == NULL) { if (fails++ < 8) printf("FAIL %s frame %d (%s, senones of %s): no scores returned\n", model, frame, what, set); return; }
    /* the active list as the scorer sees it (acmod_flags2list: 8-bit deltas, with filler entries across gaps > 255) */
    {
        int i;
        (void)nsen;
        for (i = 0, s = 0; i < am->n_senone_active; i++) {
            s += am->senone_active[i];
            nact++;
            if (scr[s] < 0) neg++;
            if (scr[s] < best) best = scr[s];
        }
    }
    if (nact == 0) return;
    distinct++;
    if (neg) { if (fails++ < 8) printf("FAIL %s frame %d (%s, senones of %s): %d active senone scores are negative (16-bit range exceeded / wrapped)\n", model, frame, what, set, neg); }
    else if (best != 0) { if (fails++ < 8) printf("FAIL %s frame %d (%s, senones of %s): best active score is %d, not normalised to zero\n", model, frame, what, set, best); }
}

static int run_model(const char *repo, const char *model, const char *raw, const char *gram, int rounds)
{
    char path[600];
    static short pcm[60000];
    size_t n;
    FILE *f;
    config_t *c = config_init(NULL);
    decoder_t *d;
    acmod_t *am;
    int r;
    snprintf(path, sizeof path, "%s/tests/data/%s", repo, raw);
    f = fopen(path, "rb");
    if (!f) { printf("FAIL cannot open %s\n", path); return 1; }
    n = fread(pcm, 2, 60000, f); fclose(f);
    snprintf(path, sizeof path, "%s/model/%s", repo, model);
    config_set_str(c, "hmm", path);
    config_set_str(c, "loglevel", "FATAL");
    d = decoder_init(c);
    if (!d) { printf("FAIL decoder_init %s\n", model); return 1; }
    snprintf(path, sizeof path, "%s/tests/data/%s", repo, gram);
    if (decoder_set_jsgf_file(d, path) < 0) { printf("FAIL grammar %s\n", path); return 1; }
    am = d->acmod;
    for (r = 0; r < rounds; r++) {
        int t, nfr;
        {
            /* the acoustic model on its own: buffer every feature frame of the recording (growing mode) */
            int16 *p = pcm; size_t left = n;
            acmod_start_utt(am);
            acmod_set_grow(am, TRUE);
            while (left) if (acmod_process_raw(am, &p, &left, FALSE) < 0) { printf("FAIL acmod_process_raw\n"); return 1; }
        }
        nfr = am->n_feat_frame;
        if (nfr < 100) { printf("FAIL only %d frames buffered\n", nfr); return 1; }
        am->compallsen = 0;
        for (t = 0; t < nfr; t++) {
            char s1[100], s2[100];
            int idx;
            const int16 *scr;
            if (rnd(8) == 0) { int s; acmod_clear_active(am); for (s = 0; s < bin_mdef_n_sen(am->mdef); s++) bitvec_set(am->senone_active_vec, s); strcpy(s1, "all phones"); }
            else choose(am, s1, sizeof s1);
            idx = t;
            scr = acmod_score(am, &idx);
            check(am, scr, t, model, "first request", s1);
            if (!acmod_advance(am) && t + 1 < nfr) { /* nothing left */ }
            /* the frame just left, again, with another active set (still inside the scorer's history) */
            choose(am, s2, sizeof s2);
            idx = t;
            scr = acmod_score(am, &idx);
            if (scr) check(am, scr, t, model, "requested again after advancing", s2);
        }
        acmod_end_utt(am);
    }
    decoder_free(d);
    return 0;
}

int main(int argc, char **argv)
{
    int thorough = argc > 1 && strcmp(argv[1], "thorough") == 0;
    const char *repo = getenv("SSW_REPO") ? getenv("SSW_REPO") : "/repo";
    err_set_loglevel(ERR_FATAL);
    if (run_model(repo, "en-us", "goforward.raw", "goforward.gram", thorough ? 12 : 3)) return 1;
    if (run_model(repo, "fr-fr", "goforward_fr.raw", "goforward_fr.gram", thorough ? 12 : 3)) return 1;
    printf("SAMPLE en-us frame t scored for the senones of 1..6 random base phones, acmod_advance, frame t requested again for other base phones\n");
    printf("CASES %ld\nDISTINCT %ld\n", cases, distinct);
    return fails ? 1 : 0;
}
