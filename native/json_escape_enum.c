/* C14 native stand-in (exhaustive over a bounded space; NOT a proof): json_escape() of src/decoder.c, the function every
 * "t" field of the JSON line goes through.  EVERY spelling of 1 or 2 bytes over all 255 non-NUL byte values, every
 * spelling of 3 bytes over 48 representative bytes (all controls classes, quote, backslash, slash, 0x7f, 0x80, 0xc3,
 * 0xa8, 0xff, ...), and longer mixes: the escaped copy (a) decodes back to the spelling with an independent JSON string
 * decoder, (b) contains no raw control character / quote, (c) has exactly the length the sizing rule predicts;
 * AddressSanitizer watches the block (exact-size heap allocation). */
#include <stdio.h>
#include <stdlib.h>
#include <string.h>
#define main ssw_decoder_main_unused
#include "decoder.c"
#undef main
static long cases, distinct, fails;
static int hexval(char c) { return (c >= '0' && c <= '9') ? c - '0' : (c >= 'a' && c <= 'f') ? c - 'a' + 10 : (c >= 'A' && c <= 'F') ? c - 'A' + 10 : -1; }
static void check(const unsigned char *in, size_t n)
{
    char *out = json_escape((const char *)in);
    size_t j = 0, i, want = 0;
    const char *why = NULL;
    cases++;
    for (i = 0; i < n; i++) want += (in[i] == '"' || in[i] == '\\') ? 2 : in[i] < 0x20 ? 6 : 1;
    if (!out) why = "no copy returned";
    else if (strlen(out) != want) why = "escaped length differs from the sizing rule (2 for quote / backslash, 6 for control characters, 1 otherwise)";
    for (i = 0; !why && i < n; i++) {
        unsigned char c = (unsigned char)out[j];
        if (c < 0x20 || c == '"') { why = "raw control character or quote inside the JSON string"; break; }
        if (c == '\\') {
            char e = out[j + 1];
            int v = -1;
            if (e == 'u') { int a = hexval(out[j + 2]), b = hexval(out[j + 3]), c2 = hexval(out[j + 4]), d = hexval(out[j + 5]); if (a < 0 || b < 0 || c2 < 0 || d < 0) { why = "\\u escape without four hexadecimal digits"; break; } v = (a << 12) | (b << 8) | (c2 << 4) | d; j += 6; }
            else { v = e == '"' ? '"' : e == '\\' ? '\\' : e == '/' ? '/' : e == 'b' ? 8 : e == 'f' ? 12 : e == 'n' ? 10 : e == 'r' ? 13 : e == 't' ? 9 : -1; j += 2; }
            if (v != in[i]) { why = "escape sequence does not decode to the byte of the spelling"; break; }
        } else { if (c != in[i]) { why = "plain byte not copied unchanged"; break; } j++; }
    }
    if (!why && out[j] != '\0') why = "escaped copy continues after the end of the spelling";
    if (why && fails++ < 8) { printf("FAIL json_escape: %s; spelling bytes:", why); for (i = 0; i < n; i++) printf(" %02x", in[i]); printf("\n"); }
    ckd_free(out);
}
int main(int argc, char **argv)
{
    static const unsigned char rep[48] = { 1, 2, 7, 8, 9, 10, 12, 13, 0x0f, 0x10, 0x1b, 0x1f, 0x20, 0x21, '"', '#', '\'', '/', '0', '9', 'A', 'Z', '\\', ']', 'a', 'f', 'u', 'z', '{', '~',
        0x7f, 0x80, 0x81, 0x9f, 0xa0, 0xa8, 0xbf, 0xc2, 0xc3, 0xe2, 0xef, 0xf0, 0xfe, 0xff, 0x5b, 0x5d, 0x3a, 0x2c };
    unsigned char b[16];
    int a, c, e, thorough = argc > 1 && strcmp(argv[1], "thorough") == 0;
    unsigned lcg = 7u;
    b[0] = 0; check(b, 0);
    for (a = 1; a < 256; a++) { b[0] = a; b[1] = 0; check(b, 1); distinct++; }
    for (a = 1; a < 256; a++) for (c = 1; c < 256; c++) { b[0] = a; b[1] = c; b[2] = 0; check(b, 2); distinct++; }
    for (a = 0; a < 48; a++) for (c = 0; c < 48; c++) for (e = 0; e < 48; e++) { b[0] = rep[a]; b[1] = rep[c]; b[2] = rep[e]; b[3] = 0; check(b, 3); distinct++; }
    for (a = 0; a < (thorough ? 2000000 : 100000); a++) {
        int n; lcg = lcg * 1103515245u + 12345u; n = 4 + (lcg >> 16) % 11;
        for (c = 0; c < n; c++) { lcg = lcg * 1103515245u + 12345u; b[c] = (lcg >> 28) < 6 ? rep[(lcg >> 16) % 48] : (unsigned char)(1 + (lcg >> 16) % 255); }
        b[n] = 0; check(b, n); distinct++;
    }
    printf("SAMPLE spelling 22 5c 07 c3 a8 -> escaped, decoded back, length 2+2+6+1+1\n");
    printf("CASES %ld\nDISTINCT %ld\n", cases, distinct);
    return fails ? 1 : 0;
}
