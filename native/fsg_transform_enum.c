/* C13 native stand-in (bounded, exhaustive over the stated family; NOT a proof): the real grammar transformations of
 * src/fsg_model.c on every small grammar of an enumerated family, compared with an independent max-plus evaluation.
 *
 *  1. closure:   every null-arc graph with 3 states, and with 4 states and <= 4 arcs (thorough <= 5), each arc with one of
 *                3 probabilities; every 4-state graph with <= 6 arcs and 2 probabilities per arc (thorough 3).  After fsg_model_null_trans_closure the direct null arc (i,j), i != j, must exist iff j is
 *                reachable from i through null arcs and carry exactly the best path score (Floyd-Warshall on the original
 *                arcs); original arcs never removed; closing a second time adds nothing and changes no score.
 *  2. language:  every grammar with 3 states and <= 3 arcs (quick; thorough <= 4) drawn from {null, a, b} x state pairs x
 *                2 probabilities.  best[seq] (best score of every word sequence of length <= 4 from start to final,
 *                null arcs followed transitively) is computed before and after
 *                   closure                    -> identical, and one null step after closure == full null closure before;
 *                   add_silence (all states)   -> identical once filler arcs are ignored; a second add_silence changes no arc;
 *                   add_alt(a, a(2))           -> identical once a(2) is read as a; every a arc has a parallel a(2) arc of
 *                                                 the same score;
 *                   write -> read (closed grammar, labels a / A to catch case folding) -> same states, start, final,
 *                                                 same labelled arcs, probabilities equal to the printed precision (1e-6).
 */
#include <stdio.h>
#include <stdlib.h>
#include <string.h>
#include <math.h>
#include <soundswallower/fsg_model.h>
#include <soundswallower/logmath.h>
#include <soundswallower/err.h>
#include <soundswallower/s3file.h>
#include <soundswallower/glist.h>
#include <soundswallower/bitvec.h>
#include <soundswallower/ckd_alloc.h>

#define NEG (-1000000000)
static logmath_t *lm;
static long cases, distinct, fails;
static char sample[4][200];
static int nsample;

static void failf(const char *what, const char *desc)
{
    if (fails++ < 8) printf("FAIL %s: %s\n", what, desc);
}

/* ---------- reading a grammar back out through the public iterator ---------- */
#define MAXARC 256
typedef struct { int from, to, wid, lp; } arc_t;
static int get_arcs(fsg_model_t *fsg, arc_t *out)
{
    int n = 0, i;
    for (i = 0; i < fsg_model_n_state(fsg); i++) {
        fsg_arciter_t *it;
        for (it = fsg_model_arcs(fsg, i); it; it = fsg_arciter_next(it)) {
            fsg_link_t *l = fsg_arciter_get(it);
            if (n < MAXARC) { out[n].from = l->from_state; out[n].to = l->to_state; out[n].wid = l->wid; out[n].lp = l->logs2prob; n++; }
        }
    }
    return n;
}

/* label classes used by the evaluator: -1 null, 0.. real words, -2 ignore (filler) */
typedef int (*labelmap_f)(fsg_model_t *fsg, int wid);
static int map_plain(fsg_model_t *fsg, int wid) { (void)fsg; return wid; }
static int wid_a = -1, wid_alt = -1;
static int map_nofiller(fsg_model_t *fsg, int wid) { return wid >= 0 && fsg_model_is_filler(fsg, wid) ? -2 : wid; }
static int map_alt(fsg_model_t *fsg, int wid) { (void)fsg; return wid == wid_alt ? wid_a : wid; }

#define MAXST 4
#define NSYM 2
#define MAXLEN 4
#define NSEQ (1 + 2 + 4 + 8 + 16)
/* best[seq]: null arcs followed transitively (full = 1) or at most one null step after each word and at the start (full = 0) */
static void evaluate(fsg_model_t *fsg, labelmap_f map, int full, const int *symwid, int *best)
{
    arc_t a[MAXARC];
    int na = get_arcs(fsg, a), ns = fsg_model_n_state(fsg);
    int V[NSEQ][MAXST], q, s, k, it, len;
    for (k = 0; k < na; k++) a[k].wid = map(fsg, a[k].wid);
    for (len = 0; len <= MAXLEN; len++) {
        int cnt = 1 << len, off = cnt - 1, poff = (cnt >> 1) - 1;
        for (q = 0; q < cnt; q++) {
            int W[MAXST], idx = off + q;
            if (len == 0) { for (s = 0; s < ns; s++) W[s] = s == fsg_model_start_state(fsg) ? 0 : NEG; }
            else {
                int parent = poff + (q >> 1), sym = symwid[q & 1];
                for (s = 0; s < ns; s++) W[s] = NEG;
                for (k = 0; k < na; k++)
                    if (a[k].wid == sym && V[parent][a[k].from] > NEG && V[parent][a[k].from] + a[k].lp > W[a[k].to]) W[a[k].to] = V[parent][a[k].from] + a[k].lp;
            }
            if (full) {
                for (it = 0; it < ns + 1; it++)
                    for (k = 0; k < na; k++)
                        if (a[k].wid == -1 && W[a[k].from] > NEG && W[a[k].from] + a[k].lp > W[a[k].to]) W[a[k].to] = W[a[k].from] + a[k].lp;
            } else {
                int X[MAXST];
                for (s = 0; s < ns; s++) X[s] = W[s];
                for (k = 0; k < na; k++)
                    if (a[k].wid == -1 && W[a[k].from] > NEG && W[a[k].from] + a[k].lp > X[a[k].to]) X[a[k].to] = W[a[k].from] + a[k].lp;
                for (s = 0; s < ns; s++) W[s] = X[s];
            }
            for (s = 0; s < ns; s++) V[idx][s] = W[s];
            best[idx] = W[fsg_model_final_state(fsg)];
        }
    }
}

/* ---------- building ---------- */
static const double PR3[3] = { 1.0, 0.5, 0.1 };
static int lp_of(fsg_model_t *fsg, double p) { return (int)(logmath_log(lm, p) * fsg->lw); }

static void describe(char *out, size_t n, int ns, int narc, const int *from, const int *to, const int *lab, const double *p)
{
    size_t o = (size_t)snprintf(out, n, "%d states:", ns);
    int k;
    for (k = 0; k < narc && o < n; k++) o += (size_t)snprintf(out + o, n - o, " %d-%s(%.1f)->%d", from[k], lab[k] < 0 ? "null" : lab[k] == 0 ? "a" : "b", p[k], to[k]);
}

/* ---------- 1. closure on null graphs ---------- */
static void closure_case(int ns, int narc, const int *from, const int *to, const double *p)
{
    fsg_model_t *fsg = fsg_model_init("g", lm, 1.0f, ns);
    int D[MAXST][MAXST], i, j, k, lab[8];
    char d[300];
    arc_t a[MAXARC], b[MAXARC];
    int na, nb;
    glist_t nulls;
    fsg->start_state = 0; fsg->final_state = ns - 1;
    for (i = 0; i < ns; i++) for (j = 0; j < ns; j++) D[i][j] = NEG;
    for (k = 0; k < narc; k++) {
        int lp = lp_of(fsg, p[k]);
        lab[k] = -1;
        fsg_model_null_trans_add(fsg, from[k], to[k], lp);
        if (lp > D[from[k]][to[k]]) D[from[k]][to[k]] = lp;
    }
    for (k = 0; k < ns; k++) for (i = 0; i < ns; i++) for (j = 0; j < ns; j++)
        if (D[i][k] > NEG && D[k][j] > NEG && D[i][k] + D[k][j] > D[i][j]) D[i][j] = D[i][k] + D[k][j];
    /* a second Floyd-Warshall round: cycles can only lower scores (probabilities <= 1), so one round is exact */
    nulls = fsg_model_null_trans_closure(fsg, NULL);
    glist_free(nulls);
    na = get_arcs(fsg, a);
    describe(d, sizeof d, ns, narc, from, to, lab, p);
    cases++;
    if (narc >= 2) distinct++;
    for (i = 0; i < ns; i++) for (j = 0; j < ns; j++) {
        int got = NEG;
        if (i == j) continue;
        for (k = 0; k < na; k++) if (a[k].from == i && a[k].to == j && a[k].wid < 0) { if (got > NEG) failf("closure: duplicate null arc", d); got = a[k].lp; }
        if (got != D[i][j]) { char w[400]; snprintf(w, sizeof w, "%s : null arc %d->%d has score %d, best null path has %d", d, i, j, got, D[i][j]); failf("closure is not the best-path closure", w); }
    }
    for (k = 0; k < na; k++) if (a[k].from == a[k].to && a[k].wid < 0) failf("closure: null self-loop created", d);
    /* idempotence */
    nulls = fsg_model_null_trans_closure(fsg, NULL);
    glist_free(nulls);
    nb = get_arcs(fsg, b);
    if (nb != na) failf("closing twice changes the number of arcs", d);
    else for (k = 0; k < na; k++) if (a[k].from != b[k].from || a[k].to != b[k].to || a[k].lp != b[k].lp) { failf("closing twice changes an arc", d); break; }
    if (nsample < 1 && narc == 4) snprintf(sample[nsample++], sizeof sample[0], "closure of %s", d);
    fsg_model_free(fsg);
}

static void closure_enum(int ns, int maxarc, int nprob)
{
    int pairs[12][2], np = 0, i, j, sel[8];
    int n;
    for (i = 0; i < ns; i++) for (j = 0; j < ns; j++) if (i != j) { pairs[np][0] = i; pairs[np][1] = j; np++; }
    for (n = 0; n <= maxarc; n++) {
        /* combinations of n pairs */
        for (i = 0; i < n; i++) sel[i] = i;
        for (;;) {
            int from[8], to[8], pc, total = 1;
            double p[8];
            for (i = 0; i < n; i++) total *= nprob;
            for (pc = 0; pc < total; pc++) {
                int x = pc;
                for (i = 0; i < n; i++) { from[i] = pairs[sel[i]][0]; to[i] = pairs[sel[i]][1]; p[i] = PR3[nprob == 2 ? 2 * (x % 2) : x % 3]; x /= nprob; }
                closure_case(ns, n, from, to, p);
            }
            /* next combination */
            for (i = n - 1; i >= 0 && sel[i] == np - n + i; i--) ;
            if (i < 0) break;
            sel[i]++;
            for (j = i + 1; j < n; j++) sel[j] = sel[j - 1] + 1;
        }
    }
}

/* ---------- 2. language preservation ---------- */
static fsg_model_t *build(int ns, int narc, const int *from, const int *to, const int *lab, const double *p, const char *wa, const char *wb, int *wids)
{
    fsg_model_t *fsg = fsg_model_init("g", lm, 1.0f, ns);
    int k;
    fsg->start_state = 0; fsg->final_state = ns - 1;
    wids[0] = fsg_model_word_add(fsg, wa);
    wids[1] = fsg_model_word_add(fsg, wb);
    for (k = 0; k < narc; k++) {
        if (lab[k] < 0) fsg_model_null_trans_add(fsg, from[k], to[k], lp_of(fsg, p[k]));
        else fsg_model_trans_add(fsg, from[k], to[k], lp_of(fsg, p[k]), wids[lab[k]]);
    }
    return fsg;
}

static int same(const int *x, const int *y) { return memcmp(x, y, NSEQ * sizeof(int)) == 0; }

static int arc_cmp(const void *x, const void *y)
{
    const arc_t *a = x, *b = y;
    if (a->from != b->from) return a->from - b->from;
    if (a->to != b->to) return a->to - b->to;
    return a->wid - b->wid;
}

static void language_case(int ns, int narc, const int *from, const int *to, const int *lab, const double *p)
{
    char d[300];
    int wids[2], before[NSEQ], after[NSEQ], k, nonempty = 0;
    fsg_model_t *fsg;
    glist_t nulls;
    describe(d, sizeof d, ns, narc, from, to, lab, p);
    cases++;

    /* closure */
    fsg = build(ns, narc, from, to, lab, p, "a", "b", wids);
    evaluate(fsg, map_plain, 1, wids, before);
    for (k = 0; k < NSEQ; k++) if (before[k] > NEG) nonempty = 1;
    if (nonempty) distinct++;
    nulls = fsg_model_null_trans_closure(fsg, NULL); glist_free(nulls);
    evaluate(fsg, map_plain, 1, wids, after);
    if (!same(before, after)) failf("closure changes the language or a best probability", d);
    evaluate(fsg, map_plain, 0, wids, after);
    if (!same(before, after)) failf("after closure one null step is not enough (the search follows null arcs once)", d);
    {
        /* silence on the closed grammar */
        arc_t a1[MAXARC], a2[MAXARC]; int n1, n2;
        if (fsg_model_add_silence(fsg, "<sil>", -1, 0.005f) != ns) failf("add_silence did not add one loop per state", d);
        evaluate(fsg, map_nofiller, 1, wids, after);
        if (!same(before, after)) failf("add_silence changes the real-word language or a best probability", d);
        n1 = get_arcs(fsg, a1);
        fsg_model_add_silence(fsg, "<sil>", -1, 0.005f);
        n2 = get_arcs(fsg, a2);
        if (n1 != n2 || memcmp(a1, a2, (size_t)n1 * sizeof(arc_t)) != 0) failf("adding silence twice changes the grammar further", d);
        for (k = 0; k < ns; k++) {
            int q, found = 0;
            for (q = 0; q < n1; q++) if (a1[q].from == k && a1[q].to == k && a1[q].wid >= 0 && fsg_model_is_filler(fsg, a1[q].wid)) found++;
            if (found != 1) failf("state without exactly one silence self-loop", d);
        }
    }
    {
        /* alternates on top */
        arc_t a1[MAXARC]; int n1, q, r;
        wid_a = wids[0];
        fsg_model_add_alt(fsg, "a", "a(2)");
        wid_alt = fsg_model_word_id(fsg, "a(2)");
        evaluate(fsg, map_nofiller, 1, wids, after);
        if (!same(before, after)) failf("add_alt changes the language over the base words", d);
        {
            /* reading a(2) as a must not change anything either */
            int tmp[NSEQ];
            arc_t *dummy = NULL; (void)dummy;
            evaluate(fsg, map_alt, 1, wids, tmp);
            /* map_alt keeps fillers: drop them by evaluating only sequences of a/b, fillers are other wids and never match */
            if (!same(before, tmp)) failf("add_alt: alternate arcs do not mirror the base word arcs", d);
        }
        n1 = get_arcs(fsg, a1);
        for (q = 0; q < n1; q++) if (a1[q].wid == wid_a) {
            int found = 0;
            for (r = 0; r < n1; r++) if (a1[r].wid == wid_alt && a1[r].from == a1[q].from && a1[r].to == a1[q].to && a1[r].lp == a1[q].lp) found++;
            if (found != 1) failf("add_alt: base arc without exactly one parallel alternate arc of the same score", d);
        }
        for (q = 0; q < n1; q++) if (a1[q].wid == wid_alt) {
            int found = 0;
            for (r = 0; r < n1; r++) if (a1[r].wid == wid_a && a1[r].from == a1[q].from && a1[r].to == a1[q].to && a1[r].lp == a1[q].lp) found++;
            if (found != 1) failf("add_alt: alternate arc without a base arc", d);
        }
    }
    fsg_model_free(fsg);

    /* write -> read of the closed grammar; labels a / A */
    fsg = build(ns, narc, from, to, lab, p, "a", "A", wids);
    nulls = fsg_model_null_trans_closure(fsg, NULL); glist_free(nulls);
    {
        char *buf = NULL; size_t len = 0;
        FILE *fp = open_memstream(&buf, &len);
        fsg_model_t *g2;
        s3file_t *s3;
        arc_t a1[MAXARC], a2[MAXARC]; int n1, n2, q;
        fsg_model_write(fsg, fp);
        fclose(fp);
        s3 = s3file_init(buf, len);
        g2 = fsg_model_read_s3file(s3, lm, 1.0f);
        s3file_free(s3);
        if (g2 == NULL) failf("written grammar cannot be read back", d);
        else {
            if (fsg_model_n_state(g2) != ns || fsg_model_start_state(g2) != 0 || fsg_model_final_state(g2) != ns - 1) failf("round trip changes states / start / final", d);
            n1 = get_arcs(fsg, a1); n2 = get_arcs(g2, a2);
            /* compare by label text */
            for (q = 0; q < n1; q++) a1[q].wid = a1[q].wid < 0 ? -1 : (strcmp(fsg_model_word_str(fsg, a1[q].wid), "a") == 0 ? 0 : 1);
            for (q = 0; q < n2; q++) a2[q].wid = a2[q].wid < 0 ? -1 : (strcmp(fsg_model_word_str(g2, a2[q].wid), "a") == 0 ? 0 : strcmp(fsg_model_word_str(g2, a2[q].wid), "A") == 0 ? 1 : 7);
            qsort(a1, (size_t)n1, sizeof(arc_t), arc_cmp); qsort(a2, (size_t)n2, sizeof(arc_t), arc_cmp);
            if (n1 != n2) failf("round trip changes the number of arcs", d);
            else for (q = 0; q < n1; q++) {
                double p1 = logmath_exp(lm, a1[q].lp), p2 = logmath_exp(lm, a2[q].lp);
                if (a1[q].from != a2[q].from || a1[q].to != a2[q].to || a1[q].wid != a2[q].wid) { failf("round trip changes an arc or its label", d); break; }
                if (fabs(p1 - p2) > 1.0e-6 + 2.0e-4 * p1) { failf("round trip changes a probability beyond the printed precision", d); break; }
            }
            fsg_model_free(g2);
        }
        free(buf);
    }
    if (nsample < 3 && narc == 3 && nonempty && lab[0] != lab[1]) snprintf(sample[nsample++], sizeof sample[0], "closure / silence / alt / write-read of %s", d);
    fsg_model_free(fsg);
}

static void language_enum(int ns, int maxarc)
{
    /* candidate arcs: (i, j, label) with label in {null, a, b}; null self-loops excluded */
    int cand[27][3], nc = 0, i, j, l, n, sel[8];
    for (i = 0; i < ns; i++) for (j = 0; j < ns; j++) for (l = -1; l < 2; l++) if (!(l < 0 && i == j)) { cand[nc][0] = i; cand[nc][1] = j; cand[nc][2] = l; nc++; }
    for (n = 1; n <= maxarc; n++) {
        for (i = 0; i < n; i++) sel[i] = i;
        for (;;) {
            int from[8], to[8], lab[8], pc;
            double p[8];
            for (pc = 0; pc < (1 << n); pc++) {
                for (i = 0; i < n; i++) { from[i] = cand[sel[i]][0]; to[i] = cand[sel[i]][1]; lab[i] = cand[sel[i]][2]; p[i] = (pc >> i) & 1 ? 0.5 : 1.0; }
                language_case(ns, n, from, to, lab, p);
            }
            for (i = n - 1; i >= 0 && sel[i] == nc - n + i; i--) ;
            if (i < 0) break;
            sel[i]++;
            for (j = i + 1; j < n; j++) sel[j] = sel[j - 1] + 1;
        }
    }
}

int main(int argc, char **argv)
{
    int thorough = argc > 1 && strcmp(argv[1], "thorough") == 0;
    int i;
    err_set_loglevel(ERR_FATAL);
    lm = logmath_init(1.0001, 0, 1);
    closure_enum(3, 6, 3);
    closure_enum(4, thorough ? 5 : 4, 3);
    closure_enum(4, 6, thorough ? 3 : 2);   /* redundant null paths whose scores have to be propagated in several sweeps */
    language_enum(2, thorough ? 5 : 4);
    language_enum(3, thorough ? 4 : 3);
    for (i = 0; i < nsample; i++) printf("SAMPLE %s\n", sample[i]);
    printf("CASES %ld\nDISTINCT %ld\n", cases, distinct);
    return fails ? 1 : 0;
}
