/* C09 native stand-in (bounded random walk; NOT a proof): "no sequence of API calls corrupts memory, aborts, or leaks".
 * Pseudo-random sequences of public API calls on a real decoder (bundled en-us model) under AddressSanitizer and
 * LeakSanitizer: mostly following the documented protocol (grammars / words / alignment text between utterances; start,
 * audio in pieces as int16 or float32 with and without no_search, end; every result interface at any time, also before
 * any audio and on empty results), with a fraction of out-of-order calls (audio before start or after end, start twice,
 * end without start, empty-string arguments).  Every call must return; after every walk the decoder must still decode
 * the reference recording to the reference result; when the last reference is released LeakSanitizer must find nothing.
 * quick: 60 walks x 25 calls; thorough: 400 walks.
 */
#include <stdio.h>
#include <stdlib.h>
#include <string.h>
#include <soundswallower/alignment.h>
#include <soundswallower/configuration.h>
#include <soundswallower/decoder.h>
#include <soundswallower/err.h>
#include <soundswallower/lattice.h>

static unsigned lcg = 777u;
static unsigned rnd(unsigned n) { lcg = lcg * 1103515245u + 12345u; return (lcg >> 16) % n; }
static short pcm[70000]; static float fpcm[70000]; static size_t npcm;
static char repo[400];
static long cases, distinct, fails;
static char trace[4000]; static size_t tro;
static void note(const char *s) { if (tro + strlen(s) + 2 < sizeof trace) tro += (size_t)snprintf(trace + tro, sizeof trace - tro, "%s ", s); }

static void set_gram(decoder_t *d, const char *file)
{
    char path[600];
    snprintf(path, sizeof path, "%s/tests/data/%s", repo, file);
    decoder_set_jsgf_file(d, path);
}
static void results(decoder_t *d, unsigned which)
{
    switch (which) {
    case 0: { int32 s; (void)decoder_hyp(d, &s); note("hyp"); break; }
    case 1: { seg_iter_t *s; int n = 0; for (s = decoder_seg_iter(d); s; s = seg_iter_next(s)) { int a, b; int32 x, y; seg_iter_frames(s, &a, &b); (void)seg_iter_word(s); (void)seg_iter_prob(s, &x, &y); n++; } note("seg"); break; }
    case 2: { lattice_t *l = decoder_lattice(d); if (l) { latnode_iter_t *it; for (it = ps_latnode_iter(l); it; it = ps_latnode_iter_next(it)) (void)ps_latnode_word(l, ps_latnode_iter_node(it)); } note("lattice"); break; }
    case 3: { alignment_t *a = decoder_alignment(d); if (a) { alignment_iter_t *it; for (it = alignment_phones(a); it; it = alignment_iter_next(it)) (void)alignment_iter_name(it); } note("alignment"); break; }
    case 4: { (void)decoder_result_json(d, 0.5, (int)rnd(3)); note("json"); break; }
    case 5: { hyp_iter_t *n = decoder_nbest(d); int k = 0; while (n && k < 4) { int32 s; (void)hyp_iter_hyp(n, &s); n = hyp_iter_next(n); k++; } if (n) hyp_iter_free(n); note("nbest"); break; }
    case 6: (void)decoder_n_frames(d); (void)decoder_prob(d); note("frames/prob"); break;
    default: { const char *c = decoder_get_cmn(d, (int)rnd(2)); if (c) { char copy[600]; snprintf(copy, sizeof copy, "%s", c); decoder_set_cmn(d, copy); } note("cmn"); break; }
    }
}
static void audio(decoder_t *d, size_t *pos)
{
    size_t n = rnd(6000); int ns = rnd(4) == 0;
    if (*pos + n > npcm) n = npcm - *pos;
    if (rnd(2)) { decoder_process_int16(d, pcm + *pos, n, ns, 0); note(ns ? "int16(buffered)" : "int16"); }
    else { decoder_process_float32(d, fpcm + *pos, n, ns, 0); note(ns ? "float32(buffered)" : "float32"); }
    *pos += n;
}

int main(int argc, char **argv)
{
    int thorough = argc > 1 && strcmp(argv[1], "thorough") == 0;
    int walks = thorough ? 400 : 60, w;
    char path[600], ref[300] = "";
    config_t *c;
    decoder_t *d;
    FILE *f;
    size_t i;
    snprintf(repo, sizeof repo, "%s", getenv("SSW_REPO") ? getenv("SSW_REPO") : "/repo");
    err_set_loglevel(ERR_FATAL);
    snprintf(path, sizeof path, "%s/tests/data/goforward.raw", repo);
    f = fopen(path, "rb");
    if (!f) { printf("FAIL cannot open %s\n", path); return 1; }
    npcm = fread(pcm, 2, 70000, f); fclose(f);
    for (i = 0; i < npcm; i++) fpcm[i] = pcm[i] / 32768.0f;
    c = config_init(NULL);
    snprintf(path, sizeof path, "%s/model/en-us", repo);
    config_set_str(c, "hmm", path); config_set_str(c, "loglevel", "FATAL");
    d = decoder_init(c);
    if (!d) { printf("FAIL decoder_init\n"); return 1; }

    for (w = 0; w < walks; w++) {
        int started = 0, k; size_t pos = 0;
        tro = 0; trace[0] = 0;
        cases++; distinct++;
        if (w > 0 || rnd(2)) { set_gram(d, rnd(2) ? "goforward.gram" : "pizza.gram"); note("grammar"); }
        for (k = 0; k < 25; k++) {
            unsigned op = rnd(100);
            if (op < 8) { if (!started || rnd(5) == 0) { decoder_start_utt(d); note(started ? "start(again)" : "start"); started = 1; pos = 0; } }
            else if (op < 45) { if (started || rnd(6) == 0) audio(d, &pos); }
            else if (op < 55) { if (started || rnd(5) == 0) { decoder_end_utt(d); note(started ? "end" : "end(not started)"); started = 0; } }
            else if (op < 85) results(d, rnd(8));
            else if (!started) {
                switch (rnd(6)) {
                case 0: set_gram(d, "goforward.gram"); note("grammar"); break;
                case 1: set_gram(d, "pizza.gram"); note("grammar2"); break;
                case 2: decoder_add_word(d, rnd(2) ? "foobie" : "", rnd(3) ? "F UW B IY" : "", (int)rnd(2)); note("add_word"); break;
                case 3: decoder_set_align_text(d, rnd(3) ? "go forward ten meters" : ""); note("align_text"); break;
                case 4: { char *p = decoder_lookup_word(d, rnd(2) ? "forward" : "nosuchword"); free(p); note("lookup"); break; }
                default: { set_gram(d, "nosuchfile.gram"); note("grammar(missing)"); break; }
                }
            } else { decoder_add_word(d, "midutt", "M IH D", 1); note("add_word(mid-utterance)"); }
        }
        if (started) decoder_end_utt(d);
        /* still usable: the reference recording gives the reference result */
        {
            int32 score; const char *h; char sig[300];
            set_gram(d, "goforward.gram");
            decoder_set_cmn(d, "40,3,-1,0,0,0,0,0,0,0,0,0,0");
            decoder_start_utt(d); decoder_process_int16(d, pcm, npcm, 0, 1); decoder_end_utt(d);
            h = decoder_hyp(d, &score);
            snprintf(sig, sizeof sig, "%s %d", h ? h : "(null)", score);
            if (!ref[0]) { strcpy(ref, sig); printf("SAMPLE walk 0: %.400s -> then the reference decode gives \"%s\"\n", trace, ref); if (!strstr(ref, "go forward ten meters")) { printf("FAIL reference decode: %s\n", ref); return 1; } }
            else if (strcmp(sig, ref) != 0) { if (fails++ < 6) printf("FAIL decoder no longer reproduces the reference result (\"%s\" instead of \"%s\") after: %.600s\n", sig, ref, trace); }
        }
    }
    decoder_free(d);
    printf("CASES %ld\nDISTINCT %ld\n", cases, distinct);
    fflush(stdout);
    /* LeakSanitizer runs at exit: every allocation must have been freed with the last reference */
    return fails ? 1 : 0;
}
