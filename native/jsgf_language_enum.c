/* C05 native stand-in (bounded, exhaustive over the stated family; NOT a proof): the real JSGF parser and compiler
 * (jsgf_parse_string, jsgf_build_fsg, jsgf_build_fsg_raw) on every grammar of an enumerated family, compared with an
 * independent denotational evaluation of the same expression.
 *
 *   expressions  e ::= a | b | <NULL> | <x>           (with  <x> = b a | a;)
 *                    | (e) | [e] | (e)* | (e)+ | (e) {tag}
 *                    | (e) (e) | (e) | (e) | /1/ (e) | /3/ (e) | /0.2/ (e) | /0.3/ (e)
 *                nesting depth <= 2 (quick: the binary constructors over depth-1 operands are seq and alt only).
 *   language     the set of word sequences of length <= 4 over {a, b} (a 31-bit set); the compiled FSG must accept
 *                exactly the sequences of the denotation (null arcs followed transitively), raw and closed builds alike.
 *   weights      in the raw FSG the probabilities of the arcs leaving any state sum to one (every state of the raw
 *                graph is one choice point); for  /w1/ u | /w2/ v  with plain word sequences u != v the best
 *                probability of u is w1/(w1+w2).
 *   history      one grammar object: build <good>, build a refused rule, build <good> again (3 rounds): same language
 *   refusal      left recursion, embedded recursion (also through groups and optionals, over every depth-1 expression),
 *                undefined rule, no public rule: no FSG is produced; right (tail) recursion -- direct, through a group or
 *                an optional, mutual -- compiles to the expected language.  <VOID>: refusal or the exact language.
 */
#include <stdio.h>
#include <stdlib.h>
#include <string.h>
#include <math.h>
#include <stdint.h>
#include <soundswallower/jsgf.h>
#include <soundswallower/fsg_model.h>
#include <soundswallower/logmath.h>
#include <soundswallower/err.h>
#include <soundswallower/glist.h>

#define NEG (-1000000000)
#define MAXLEN 4
#define NSEQ 31
static logmath_t *lm;
static long cases, distinct, fails;
static char sample[4][300];
static int nsample;

static void failf(const char *what, const char *desc)
{
    if (fails++ < 8) printf("FAIL %s: %s\n", what, desc);
}

/* ---------- sequences of length <= 4 over {a,b} as indices 0..30: index = (2^len - 1) + bits ---------- */
static int seq_len(int idx) { int l = 0; while ((2 << l) - 1 <= idx) l++; return l; }
static int seq_cat(int u, int v)
{
    int lu = seq_len(u), lv = seq_len(v), bu = u - ((1 << lu) - 1), bv = v - ((1 << lv) - 1);
    if (lu + lv > MAXLEN) return -1;
    return ((1 << (lu + lv)) - 1) + ((bu << lv) | bv);     /* first symbol is the most significant bit */
}
typedef uint32_t lang_t;
static lang_t l_cat(lang_t x, lang_t y)
{
    lang_t r = 0; int u, v;
    for (u = 0; u < NSEQ; u++) if (x >> u & 1) for (v = 0; v < NSEQ; v++) if (y >> v & 1) { int c = seq_cat(u, v); if (c >= 0) r |= 1u << c; }
    return r;
}
static lang_t l_star(lang_t x)
{
    lang_t r = 1, prev;
    do { prev = r; r |= l_cat(r, x); } while (r != prev);
    return r;
}
#define L_A (1u << 1)
#define L_B (1u << 2)
#define L_EPS 1u
static void seq_str(int idx, char *out)
{
    int l = seq_len(idx), b = idx - ((1 << l) - 1), i, o = 0;
    if (l == 0) { strcpy(out, "(empty)"); return; }
    for (i = l - 1; i >= 0; i--) { out[o++] = (b >> i & 1) ? 'b' : 'a'; out[o++] = ' '; }
    out[o - 1] = 0;
}

/* ---------- the compiled FSG's language ---------- */
#define MAXARC 4096
#define MAXST 512
typedef struct { int from, to, wid, lp; } arc_t;
static arc_t arcs[MAXARC];
static int get_arcs(fsg_model_t *fsg)
{
    int n = 0, i;
    for (i = 0; i < fsg_model_n_state(fsg); i++) {
        fsg_arciter_t *it;
        for (it = fsg_model_arcs(fsg, i); it; it = fsg_arciter_next(it)) {
            fsg_link_t *l = fsg_arciter_get(it);
            if (n < MAXARC) { arcs[n].from = l->from_state; arcs[n].to = l->to_state; arcs[n].wid = l->wid; arcs[n].lp = l->logs2prob; n++; }
            else { fsg_arciter_free(it); return -1; }
        }
    }
    return n;
}
static int V[NSEQ][MAXST];
/* returns the accepted set; best[] = best score per sequence; -1 if the graph is too large for the evaluator */
static int fsg_language(fsg_model_t *fsg, lang_t *out, int *best)
{
    int na = get_arcs(fsg), ns = fsg_model_n_state(fsg), q, s, k, it, len, symwid[2];
    lang_t r = 0;
    if (na < 0 || ns > MAXST) return -1;
    symwid[0] = fsg_model_word_id(fsg, "a"); symwid[1] = fsg_model_word_id(fsg, "b");
    if (symwid[0] < 0) symwid[0] = -5;
    if (symwid[1] < 0) symwid[1] = -6;
    for (k = 0; k < na; k++) if (arcs[k].wid >= 0 && arcs[k].wid != symwid[0] && arcs[k].wid != symwid[1]) return -2;   /* a word outside {a,b} */
    for (len = 0; len <= MAXLEN; len++) {
        int cnt = 1 << len, off = cnt - 1, poff = (cnt >> 1) - 1;
        for (q = 0; q < cnt; q++) {
            int *W = V[off + q];
            if (len == 0) { for (s = 0; s < ns; s++) W[s] = s == fsg_model_start_state(fsg) ? 0 : NEG; }
            else {
                int *P = V[poff + (q >> 1)], sym = symwid[q & 1];
                for (s = 0; s < ns; s++) W[s] = NEG;
                for (k = 0; k < na; k++)
                    if (arcs[k].wid == sym && P[arcs[k].from] > NEG && P[arcs[k].from] + arcs[k].lp > W[arcs[k].to]) W[arcs[k].to] = P[arcs[k].from] + arcs[k].lp;
            }
            for (it = 0; it < ns + 1; it++) {
                int changed = 0;
                for (k = 0; k < na; k++)
                    if (arcs[k].wid == -1 && W[arcs[k].from] > NEG && W[arcs[k].from] + arcs[k].lp > W[arcs[k].to]) { W[arcs[k].to] = W[arcs[k].from] + arcs[k].lp; changed = 1; }
                if (!changed) break;
            }
            if (best) best[off + q] = W[fsg_model_final_state(fsg)];
            if (W[fsg_model_final_state(fsg)] > NEG) r |= 1u << (off + q);
        }
    }
    *out = r;
    return 0;
}

/* ---------- one grammar ---------- */
#define HDR "#JSGF V1.0;\ngrammar g;\n<x> = b a | a;\n"
static void check_sum_to_one(fsg_model_t *raw, const char *text)
{
    int na = get_arcs(raw), ns = fsg_model_n_state(raw), s, k;
    if (na < 0) return;
    for (s = 0; s < ns; s++) {
        double sum = 0; int n = 0;
        for (k = 0; k < na; k++) if (arcs[k].from == s) { sum += logmath_exp(lm, arcs[k].lp); n++; }
        if (n > 0 && fabs(sum - 1.0) > 2.0e-3) {
            char w[600];
            snprintf(w, sizeof w, "%s : the %d arcs leaving state %d carry total probability %.4f", text, n, s, sum);
            failf("weights at a choice point are not normalised to one", w);
            return;
        }
    }
}

/* expect: 0 = must compile to language `ref`; 1 = must be refused; 2 = refusal or exact language */
static void grammar_case(const char *body, lang_t ref, int expect)
{
    char text[700];
    jsgf_t *j;
    jsgf_rule_t *rule;
    fsg_model_t *fsg, *raw;
    snprintf(text, sizeof text, HDR "%s\n", body);
    cases++;
    j = jsgf_parse_string(text, NULL);
    if (j == NULL) {
        if (expect == 0) failf("grammar of the family is not parsed", body);
        return;
    }
    rule = jsgf_get_public_rule(j);
    fsg = jsgf_build_fsg(j, rule, lm, 1.0f);
    if (expect == 1) {
        if (fsg != NULL) { failf("a grammar that cannot be represented is compiled instead of refused", body); fsg_model_free(fsg); }
        jsgf_grammar_free(j);
        return;
    }
    if (fsg == NULL) {
        if (expect == 0) failf("a representable grammar is refused", body);
        jsgf_grammar_free(j);
        return;
    }
    {
        lang_t got = 0; int rc = fsg_language(fsg, &got, NULL);
        if (rc == -2) failf("the FSG contains a word that is not in the grammar", body);
        else if (rc == 0 && got != ref) {
            char w[900], s1[40]; lang_t d = got ^ ref; int k = 0;
            while (!(d >> k & 1)) k++;
            seq_str(k, s1);
            snprintf(w, sizeof w, "%s : the sequence \"%s\" is %s by the FSG but %s by the JSGF rule", body, s1, got >> k & 1 ? "accepted" : "rejected", ref >> k & 1 ? "denoted" : "not denoted");
            failf("compiled FSG accepts a different language", w);
        }
        if (rc == 0 && (ref & ~L_EPS)) distinct++;
    }
    fsg_model_free(fsg);
    raw = jsgf_build_fsg_raw(j, rule, lm, 1.0f);
    if (raw == NULL) failf("raw build refuses what the closed build accepted", body);
    else {
        lang_t got = 0; int rc = fsg_language(raw, &got, NULL);
        if (rc == 0 && got != ref) failf("raw FSG accepts a different language", body);
        check_sum_to_one(raw, body);
        fsg_model_free(raw);
    }
    jsgf_grammar_free(j);
}

/* One grammar object used for several builds: a rule that compiles, then a rule that is refused after it has emitted
 * links, then the first rule again -- every build must give the language of the rule it was asked for. */
static void history_case(const char *expr, lang_t ref)
{
    char text[900], body[500];
    jsgf_t *j; jsgf_rule_t *good, *bad; fsg_model_t *f; int round;
    snprintf(body, sizeof body, "public <good> = %s;\npublic <bad> = a b ( a <bad> ) b | b a <undefinedrule>;", expr);
    snprintf(text, sizeof text, HDR "%s\n", body);
    cases++; distinct++;
    j = jsgf_parse_string(text, NULL);
    if (!j) { failf("two-rule grammar of the family is not parsed", body); return; }
    good = jsgf_get_rule(j, "g.good"); bad = jsgf_get_rule(j, "g.bad");
    if (!good || !bad) { failf("rules of the two-rule grammar are not found", body); jsgf_grammar_free(j); return; }
    for (round = 0; round < 3; round++) {
        lang_t got = 0;
        f = jsgf_build_fsg(j, good, lm, 1.0f);
        if (!f) { failf("a representable rule is refused on a grammar object that was used before", body); break; }
        if (fsg_language(f, &got, NULL) == 0 && got != ref) {
            char w[900]; snprintf(w, sizeof w, "%s (build number %d of <good> on the same grammar object)", body, round + 1);
            failf("a later build on the same grammar object accepts a different language", w);
            fsg_model_free(f);
            break;
        }
        fsg_model_free(f);
        f = round == 1 ? jsgf_build_fsg_raw(j, bad, lm, 1.0f) : jsgf_build_fsg(j, bad, lm, 1.0f);
        if (f) { failf("an unrepresentable rule is compiled", body); fsg_model_free(f); break; }
    }
    jsgf_grammar_free(j);
}

/* ---------- expression enumeration ---------- */
typedef struct { char text[120]; lang_t lang; int has_void; } expr_t;
#define MAXE 400
static expr_t d0[8], d1[MAXE];
static int n0, n1;

static void add(expr_t *arr, int *n, int max, const char *text, lang_t lang, int has_void)
{
    if (*n >= max) return;
    snprintf(arr[*n].text, sizeof arr[*n].text, "%s", text);
    arr[*n].lang = lang; arr[*n].has_void = has_void; (*n)++;
}

static int n_unary = 5, n_binary = 4;
static void unary(const expr_t *e, int op, expr_t *out)
{
    out->has_void = e->has_void;
    switch (op) {
    case 0: snprintf(out->text, sizeof out->text, "( %s )", e->text); out->lang = e->lang; break;
    case 1: snprintf(out->text, sizeof out->text, "[ %s ]", e->text); out->lang = e->lang | L_EPS; break;
    case 2: snprintf(out->text, sizeof out->text, "( %s )*", e->text); out->lang = l_star(e->lang); break;
    case 3: snprintf(out->text, sizeof out->text, "( %s )+", e->text); out->lang = l_cat(e->lang, l_star(e->lang)); break;
    default: snprintf(out->text, sizeof out->text, "( %s ) {tag}", e->text); out->lang = e->lang; break;
    }
}
static void binary(const expr_t *x, const expr_t *y, int op, expr_t *out)
{
    out->has_void = x->has_void || y->has_void;
    switch (op) {
    case 0: snprintf(out->text, sizeof out->text, "( %s ) ( %s )", x->text, y->text); out->lang = l_cat(x->lang, y->lang); break;
    case 1: snprintf(out->text, sizeof out->text, "( %s ) | ( %s )", x->text, y->text); out->lang = x->lang | y->lang; break;
    case 2: snprintf(out->text, sizeof out->text, "/1/ ( %s ) | /3/ ( %s )", x->text, y->text); out->lang = x->lang | y->lang; break;
    default: snprintf(out->text, sizeof out->text, "/0.2/ ( %s ) | /0.3/ ( %s )", x->text, y->text); out->lang = x->lang | y->lang; break;
    }
}
static void run_expr(const expr_t *e)
{
    char body[300];
    snprintf(body, sizeof body, "public <s> = %s;", e->text);
    grammar_case(body, e->lang, e->has_void ? 2 : 0);
    if (nsample < 3 && strlen(e->text) > 30 && (cases % 997) == 0) snprintf(sample[nsample++], sizeof sample[0], "%s  (denotes %d sequences of length <= 4)", body, __builtin_popcount(e->lang));
}

static void weighted_case(const char *u, int ui, const char *v, int vi, double w1, double w2, const char *ws1, const char *ws2)
{
    char text[400], body[200];
    jsgf_t *j; fsg_model_t *fsg;
    int best[NSEQ]; lang_t got;
    snprintf(body, sizeof body, "public <s> = /%s/ %s | /%s/ %s;", ws1, u, ws2, v);
    snprintf(text, sizeof text, HDR "%s\n", body);
    cases++; distinct++;
    j = jsgf_parse_string(text, NULL);
    if (!j) { failf("weighted grammar is not parsed", body); return; }
    fsg = jsgf_build_fsg(j, jsgf_get_public_rule(j), lm, 1.0f);
    if (!fsg) { failf("weighted grammar is refused", body); jsgf_grammar_free(j); return; }
    if (fsg_language(fsg, &got, best) == 0) {
        double p1 = logmath_exp(lm, best[ui]), p2 = logmath_exp(lm, best[vi]);
        if (fabs(p1 - w1 / (w1 + w2)) > 2e-3 || fabs(p2 - w2 / (w1 + w2)) > 2e-3) {
            char w[400];
            snprintf(w, sizeof w, "%s : probabilities %.4f / %.4f, expected %.4f / %.4f", body, p1, p2, w1 / (w1 + w2), w2 / (w1 + w2));
            failf("alternative weights are not normalised into probabilities", w);
        }
    }
    fsg_model_free(fsg);
    jsgf_grammar_free(j);
}

int main(int argc, char **argv)
{
    int thorough = argc > 1 && strcmp(argv[1], "thorough") == 0;
    int i, k, op;
    lang_t LX = (1u << seq_cat(2, 1)) | L_A;       /* <x> = b a | a */
    err_set_loglevel(ERR_FATAL + 1);
    lm = logmath_init(1.0001, 0, 1);

    add(d0, &n0, 8, "a", L_A, 0);
    add(d0, &n0, 8, "b", L_B, 0);
    add(d0, &n0, 8, "<NULL>", L_EPS, 0);
    add(d0, &n0, 8, "<x>", LX, 0);
    add(d0, &n0, 8, "<VOID>", 0, 1);
    for (i = 0; i < n0; i++) run_expr(&d0[i]);
    /* depth 1 */
    for (i = 0; i < n0; i++) for (op = 0; op < n_unary; op++) { expr_t e; unary(&d0[i], op, &e); add(d1, &n1, MAXE, e.text, e.lang, e.has_void); }
    for (i = 0; i < n0; i++) for (k = 0; k < n0; k++) for (op = 0; op < n_binary; op++) { expr_t e; binary(&d0[i], &d0[k], op, &e); add(d1, &n1, MAXE, e.text, e.lang, e.has_void); }
    for (i = 0; i < n1; i++) run_expr(&d1[i]);
    /* depth 2 */
    for (i = 0; i < n1; i++) for (op = 0; op < n_unary; op++) { expr_t e; unary(&d1[i], op, &e); run_expr(&e); }
    for (i = 0; i < n1; i++) for (k = 0; k < n0; k++) for (op = 0; op < n_binary; op++) {
        expr_t e; binary(&d1[i], &d0[k], op, &e); run_expr(&e); binary(&d0[k], &d1[i], op, &e); run_expr(&e);
    }
    for (i = 0; i < n1; i++) for (k = 0; k < n1; k++) for (op = 0; op < (thorough ? n_binary : 2); op++) {
        expr_t e;
        if (!thorough && ((i * 31 + k) % 3) != 0) continue;    /* quick: every third pair */
        binary(&d1[i], &d1[k], op, &e); run_expr(&e);
    }
    /* weights */
    {
        static const char *u[4] = { "a", "b", "a b", "b a" };
        int ui[4];
        static const double W[3][2] = { { 1, 3 }, { 0.2, 0.3 }, { 2, 2 } };
        static const char *WS[3][2] = { { "1", "3" }, { "0.2", "0.3" }, { "2", "2" } };
        ui[0] = 1; ui[1] = 2; ui[2] = seq_cat(1, 2); ui[3] = seq_cat(2, 1);
        for (i = 0; i < 4; i++) for (k = 0; k < 4; k++) if (i != k) for (op = 0; op < 3; op++) weighted_case(u[i], ui[i], u[k], ui[k], W[op][0], W[op][1], WS[op][0], WS[op][1]);
    }
    /* recursion, undefined rules, missing public rule */
    {
        lang_t anb = 0, aplus = 0; int s;
        for (s = L_B, i = 0; i <= 3; i++) { int idx = 2, q; for (q = 0; q < i; q++) idx = seq_cat(1, idx); anb |= 1u << idx; }
        (void)s;
        for (i = 1; i <= 4; i++) { int idx = 1, q; for (q = 1; q < i; q++) idx = seq_cat(1, idx); aplus |= 1u << idx; }
        grammar_case("public <s> = a <s> | b;", anb, 0);
        grammar_case("public <s> = b | a <s>;", anb, 0);
        grammar_case("public <s> = a | a <s>;", aplus, 0);
        grammar_case("public <s> = <y>;\n<y> = a <y> | b;", anb, 0);
        grammar_case("public <s> = <s> a | b;", 0, 1);
        grammar_case("public <s> = b | <s> a;", 0, 1);
        grammar_case("public <s> = a <s> b | a;", 0, 1);
        grammar_case("public <s> = <y>;\n<y> = a <s> b | b;", 0, 1);
        grammar_case("public <s> = a <undefined>;", 0, 1);
        grammar_case("public <s> = a | <undefined> b;", 0, 1);
        grammar_case("<s> = a b;", 0, 1);
        {
            /* the one-step readers: no public rule -> no FSG; a public rule among private ones -> that rule's language */
            fsg_model_t *f = jsgf_read_string(HDR "<p> = a b;\n<q> = b;\n", lm, 1.0f);
            lang_t got = 0;
            cases++; distinct++;
            if (f) { failf("jsgf_read_string compiles a grammar that has no public rule", "<p> = a b; <q> = b;"); fsg_model_free(f); }
            f = jsgf_read_string(HDR "<p> = a b;\npublic <q> = b a;\n<r> = a;\n", lm, 1.0f);
            cases++; distinct++;
            if (!f) failf("jsgf_read_string refuses a grammar with a public rule", "<p> = a b; public <q> = b a; <r> = a;");
            else { if (fsg_language(f, &got, NULL) == 0 && got != (1u << seq_cat(2, 1))) failf("jsgf_read_string compiles another rule than the public one", "<p> = a b; public <q> = b a; <r> = a;"); fsg_model_free(f); }
        }
        grammar_case("public <s> = a [ b <s> ];", L_A | 1u << seq_cat(seq_cat(1, 2), 1), 0);
        grammar_case("public <s> = <p>;\n<p> = a <q> | b;\n<q> = b <p>;", L_B | 1u << seq_cat(seq_cat(1, 2), 2), 0);
        /* recursion through groups and optionals, over every depth-1 expression E */
        for (i = 0; i < n1; i++) {
            char body[400]; lang_t E = d1[i].lang, Es = l_star(E);
            if (d1[i].has_void) continue;
            snprintf(body, sizeof body, "public <s> = ( %s ) [ <s> ];", d1[i].text); grammar_case(body, l_cat(E, Es), 0);
            snprintf(body, sizeof body, "public <s> = ( %s ) <s> | b;", d1[i].text); grammar_case(body, l_cat(Es, L_B), 0);
            snprintf(body, sizeof body, "public <s> = ( ( %s ) <s> | b );", d1[i].text); grammar_case(body, l_cat(Es, L_B), 0);
            snprintf(body, sizeof body, "public <s> = ( %s ) <q> | b;\n<q> = a <s>;", d1[i].text); grammar_case(body, l_cat(l_star(l_cat(E, L_A)), L_B), 0);
            snprintf(body, sizeof body, "public <s> = ( ( %s ) <s> ) b | b;", d1[i].text); grammar_case(body, 0, 1);
            snprintf(body, sizeof body, "public <s> = [ <s> ] ( %s ) | b;", d1[i].text); grammar_case(body, 0, 1);
            snprintf(body, sizeof body, "public <s> = ( <s> | a ) ( %s );", d1[i].text); grammar_case(body, 0, 1);
        }
        for (i = 0; i < n0; i++) if (!d0[i].has_void) history_case(d0[i].text, d0[i].lang);
        for (i = 0; i < n1; i++) if (!d1[i].has_void) history_case(d1[i].text, d1[i].lang);
        if (nsample < 4) snprintf(sample[nsample++], sizeof sample[0], "public <s> = ( a <s> ) b | b;  (embedded recursion through a group: must be refused)");
    }
    for (i = 0; i < nsample; i++) printf("SAMPLE %s\n", sample[i]);
    printf("CASES %ld\nDISTINCT %ld\n", cases, distinct);
    return fails ? 1 : 0;
}
