/* C19 native stand-in (bounded / exhaustive per (base, shift)): builds the real add table through the real
 * logmath_init and checks every entry against long double arithmetic -- i.e. exactly the table invariant the
 * CBMC proof of logmath_add assumes -- plus logmath_add against the exact value for every d in the table and 64
 * beyond it, plus a stratified sweep of the log/exp round trip.
 * Prints CASES/DISTINCT/SAMPLE/FAIL lines for run.py. */
#include <math.h>
#include <stdio.h>
#include <stdlib.h>
#include <string.h>
#include <soundswallower/logmath.h>

static long cases, distinct;
static int nfail;
#define FAIL(...) do { if (nfail++ < 10) { printf("FAIL "); printf(__VA_ARGS__); printf("\n"); } } while (0)

static uint32 tbl_at(logmath_t *l, uint32 d)
{
    uint32 size, width, shift;
    logmath_get_table_shape(l, &size, &width, &shift);
    /* LOGMATH_TABLE is the first member of the (opaque) struct */
    logadd_t *t = (logadd_t *)l;
    switch (width) {
    case 1: return ((uint8 *)t->table)[d];
    case 2: return ((uint16 *)t->table)[d];
    default: return ((uint32 *)t->table)[d];
    }
}

static void one(double base, int shift, int sweep)
{
    logmath_t *l = logmath_init(base, shift, 1);
    uint32 size, width, sh, d;
    long double lnB = ldexpl(logl((long double)base), shift); /* ln of the effective base b^(2^shift) */
    if (!l) { FAIL("logmath_init(%g,%d) returned NULL", base, shift); return; }
    logmath_get_table_shape(l, &size, &width, &sh);
    int zero = logmath_get_zero(l);
    uint32 T0 = tbl_at(l, 0);
    long double exactT0 = logl(2.0L) / lnB;
    if (fabsl((long double)T0 - exactT0) > 0.5L + 1e-6L) FAIL("base %g shift %d: table[0]=%u but log_B 2 = %Lf", base, shift, T0, exactT0);
    if (zero != (int)(0x80000000u >> 0) >> (shift + 2)) FAIL("zero");
    uint32 prev = T0;
    for (d = 0; d < size; d++) {
        uint32 e = tbl_at(l, d);
        long double exact = log1pl(expl(-(long double)d * lnB)) / lnB;
        cases++;
        if (e != prev) distinct++;
        if (e > prev) FAIL("base %g shift %d: table not non-increasing at %u (%u > %u)", base, shift, d, e, prev);
        if (e > T0) FAIL("base %g shift %d: table[%u]=%u exceeds table[0]=%u", base, shift, d, e, T0);
        if (fabsl((long double)e - exact) > 0.5L + 1e-6L)
            FAIL("base %g shift %d: table[%u]=%u exact %.6Lf (off by more than half a unit)", base, shift, d, e, exact);
        prev = e;
    }
    /* logmath_add against the exact log of the sum, every d in the table and 64 beyond, at three anchors */
    int anchors[3] = { 0, -1000, zero / 2 };
    for (int a = 0; a < 3; a++) {
        for (d = 0; d < size + 64; d++) {
            int x = anchors[a], y = anchors[a] - (int)d;
            if (y <= zero) break;
            int r = logmath_add(l, x, y), r2 = logmath_add(l, y, x);
            long double exact = (long double)x + log1pl(expl(-(long double)d * lnB)) / lnB;
            cases++;
            if (r != r2) FAIL("base %g shift %d: add(%d,%d)=%d but add(%d,%d)=%d", base, shift, x, y, r, y, x, r2);
            if (r < x || r > x + (int)T0) FAIL("base %g shift %d: add(%d,%d)=%d outside [max, max+T0]", base, shift, x, y, r);
            if (fabsl((long double)r - exact) > 0.5L + 1e-6L)
                FAIL("base %g shift %d: add(%d,%d)=%d exact %.6Lf", base, shift, x, y, r, exact);
        }
        cases++;
        if (logmath_add(l, zero, anchors[a]) != anchors[a] || logmath_add(l, anchors[a], zero) != anchors[a])
            FAIL("base %g shift %d: log-zero is not the identity at %d", base, shift, anchors[a]);
    }
    if (cases < 100000) printf("SAMPLE base=%g shift=%d size=%u width=%u T0=%u zero=%d add(0,-1)=%d\n", base, shift, size, width, T0, zero, logmath_add(l, 0, -1));
    /* log/exp round trip, stratified: x -> exp -> log, and p -> log -> exp */
    for (int k = 0; k < sweep; k++) {
        int x = -(int)(((long long)k * 2654435761u) % 1200000);
        if (x <= zero || ((long double)x * lnB) < -700.0L) continue;
        double p = logmath_exp(l, x);
        int back = logmath_log(l, p);
        cases++;
        if (back > x + 1 || back < x - 1)
            FAIL("base %g shift %d: log(exp(%d)) = %d (more than one unit away)", base, shift, x, back);
    }
    logmath_free(l);
}

int main(int argc, char **argv)
{
    int thorough = argc > 1 && strcmp(argv[1], "thorough") == 0;
    double bases_q[] = { 1.0001, 1.003 }, bases_t[] = { 1.0001, 1.0003, 1.001, 1.003, 1.01 };
    int shifts_q[] = { 0, 1, 8 }, shifts_t[] = { 0, 1, 2, 3, 4, 5, 6, 7, 8 };
    double *bases = thorough ? bases_t : bases_q;
    int nb = thorough ? 5 : 2, *shifts = thorough ? shifts_t : shifts_q, ns = thorough ? 9 : 3;
    for (int b = 0; b < nb; b++)
        for (int s = 0; s < ns; s++)
            one(bases[b], shifts[s], thorough ? 200000 : 20000);
    printf("CASES %ld\nDISTINCT %ld\n", cases, distinct);
    return nfail ? 1 : 0;
}
