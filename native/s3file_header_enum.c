/* C17 native stand-in (bounded, exhaustive): the real s3file_parse_header on EVERY file of <= LEN bytes over the
 * alphabet below (letters of "s3", "endhdr", "*end_comment*" openers, white space, a comment mark, bytes of the byte-order
 * magic), each in an exact-size heap block under AddressSanitizer; exit() trapped.  The CBMC whole-file group for
 * parse_header (tier probe) did not finish. */
#include <stdio.h>
#include <stdlib.h>
#include <string.h>
#include <setjmp.h>
static jmp_buf e_jmp;
static void trap_exit(int c) { (void)c; longjmp(e_jmp, 1); }
#define exit(c) trap_exit(c)
#include "ckd_alloc.c"
#include "s3file.c"
#undef exit
#ifndef LEN
#define LEN 5
#endif
static const unsigned char alpha[] = { 's', '3', '\n', ' ', 'e', 'n', 'd', 'h', 'r', '#', '*', 0x11, 0x22, 0x33, 0x44 };
int main(int argc, char **argv)
{
    int maxlen = argc > 1 && strcmp(argv[1], "thorough") == 0 ? LEN + 1 : LEN;
    long cases = 0, fails = 0; int na = (int)sizeof alpha;
    err_set_loglevel(ERR_FATAL + 1);
    for (int len = 0; len <= maxlen; len++) {
        long total = 1; for (int i = 0; i < len; i++) total *= na;
        for (long code = 0; code < total; code++) {
            unsigned char *exact = malloc(len ? (size_t)len : 1);
            long x = code; for (int i = 0; i < len; i++) { exact[i] = alpha[x % na]; x /= na; }
            s3file_t *s = s3file_init(exact, (size_t)len);
            cases++;
            if (setjmp(e_jmp) == 0) {
                int r = s3file_parse_header(s, NULL);
                if (r != 0 && r != -1) { if (fails++ < 5) printf("FAIL file of %d bytes (code %ld): unexpected return value %d\n", len, code, r); }
                if (s->ptr > s->end || s->ptr < (const char *)exact) { if (fails++ < 5) printf("FAIL file of %d bytes (code %ld): read position left the file\n", len, code); }
            } else if (fails++ < 5) printf("FAIL file of %d bytes (code %ld) terminates the process (exit reached from s3file_parse_header)\n", len, code);
            s3file_free(s);
            free(exact);
        }
    }
    printf("SAMPLE all files up to %d bytes over a %d-letter alphabet\nCASES %ld\nDISTINCT %ld\n", maxlen, na, cases, cases);
    return fails ? 1 : 0;
}
