/* End-to-end invariants of real decodes (bounded native run; NOT a proof) -- a safety net under the per-function
 * contracts of C01, C03, C04, C08, C09, C11 and C14.  argv[1] selects the property whose invariants are checked, so
 * that a failure is attributed to that property.
 *
 * Scenarios (bundled models, tests/data recordings, AddressSanitizer): en-us goforward.raw with the JSGF grammar, with
 * goforward.fsg, with forced-alignment text; the pizza recording with pizza.gram; in one call, streamed in 2048-sample blocks with a partial
 * result after every block, streamed as float32; one second of digital silence; one second of white noise; fr-fr
 * goforward_fr.raw with its grammar.
 *
 *  C01  hypothesis words (fillers / alternate markers removed) are accepted by the active FSG from start to final state;
 *       every partial result is a path prefix from the start state; no hypothesis rather than a non-sentence.
 *  C03  segments in time order, first at frame 0, each word segment starts after the previous ends, >= 1 frame, none past
 *       the frames searched, null segments move no time; hypothesis == base forms of non-filler segments; per-segment
 *       acoustic + grammar scores sum to the path score.
 *  C04  alignment words == first-pass dictionary words with the same start / duration; phones == dictionary
 *       pronunciation; 3 emitting states per phone in order; children partition parents, contiguous from frame 0; parent
 *       score == sum of children.
 *  C08  same audio again after other utterances / grammar switches / on a fresh decoder / interleaved with a second
 *       decoder gives the identical result (CMN state reset to the same text).
 *  C09  every result interface called before any audio, on empty results, and after out-of-order calls returns; the
 *       decoder stays usable (the reference result is reproduced afterwards).
 *  C11  lattice: every link joins a node to a later one (acyclic), times consistent, single start and end, every node
 *       on a start-to-end path, first-best words and boundaries are a path, second request returns the same object.
 *  C14  the JSON line parses as one JSON object + newline; text / b / d and the word list agree with hypothesis and
 *       segmentation (and alignment at levels 1, 2) to the printed 3 decimals.
 */
#include <ctype.h>
#include <math.h>
#include <stdio.h>
#include <stdlib.h>
#include <string.h>
#include <soundswallower/alignment.h>
#include <soundswallower/cmn.h>
#include <soundswallower/mdef.h>
#include <unistd.h>
#include <soundswallower/configuration.h>
#include <soundswallower/decoder.h>
#include <soundswallower/dict.h>
#include <soundswallower/err.h>
#include <soundswallower/fsg_model.h>
#include <soundswallower/fsg_search.h>
#include <soundswallower/fsg_lextree.h>
#include <soundswallower/fsg_history.h>
#include <soundswallower/lattice.h>
#include <soundswallower/search_module.h>

static const char *PROP = "all";
static long cases, distinct, fails;
static int want(const char *p) { return strcmp(PROP, "all") == 0 || strcmp(PROP, p) == 0; }
static const char *scen = "?";
static long n_align_retry;
/* mid-utterance results: two behaviours of the unchanged tree are listed in /verif/known_findings.txt (F6, F7); while
 * midutt is set exactly those two messages are counted as KNOWN, everything else stays a failure */
static int midutt, c11_single; static long known_c04_partial, known_c11_partial;
static void failf(const char *prop, const char *fmt, const char *a, const char *b)
{
    char m[900];
    if (!want(prop)) return;
    if (midutt && c11_single && strcmp(prop, "C11") == 0 && strstr(fmt, "is not on a lattice path with its boundaries")) { known_c11_partial++; return; }
    snprintf(m, sizeof m, fmt, a ? a : "", b ? b : "");
    if (fails++ < 12) printf("FAIL [%s] %s: %s\n", prop, scen, m);
}
static const char *CMN0 = "40,3,-1,0,0,0,0,0,0,0,0,0,0";
static double FRATE = 100.0;   /* frames per second of the decoder under test */
static char repo[400];

/* ---------- helpers ---------- */
typedef struct { char word[80]; int sf, ef; int32 ascr, lscr, prob; int wid; } segrec_t;
#define MAXSEG 200
static void base_form(const char *w, char *out, size_t n)
{
    size_t l = strlen(w);
    snprintf(out, n, "%s", w);
    if (l > 3 && w[l - 1] == ')') { char *p = strrchr(out, '('); if (p && p != out) *p = 0; }
}
static int is_null_seg(const segrec_t *s) { return s->wid < 0; }
static int is_filler(decoder_t *d, const segrec_t *s) { return s->wid >= 0 && dict_filler_word(d->dict, s->wid); }
static int get_segs(decoder_t *d, segrec_t *out)
{
    int n = 0; seg_iter_t *s;
    for (s = decoder_seg_iter(d); s; s = seg_iter_next(s)) {
        if (n >= MAXSEG) { seg_iter_free(s); break; }
        snprintf(out[n].word, sizeof out[n].word, "%s", seg_iter_word(s));
        seg_iter_frames(s, &out[n].sf, &out[n].ef);
        out[n].prob = seg_iter_prob(s, &out[n].ascr, &out[n].lscr);
        out[n].wid = dict_wordid(d->dict, out[n].word);
        n++;
    }
    return n;
}
static int split_words(const char *hyp, char w[][80], int max)
{
    int n = 0; const char *p = hyp;
    while (p && *p) {
        size_t l;
        while (*p == ' ') p++;
        l = strcspn(p, " ");
        if (l == 0) break;
        if (n < max) { snprintf(w[n], 80, "%.*s", (int)(l < 79 ? l : 79), p); n++; }
        p += l;
    }
    return n;
}

/* NFA simulation on the active FSG; returns 2 = accepted at the final state, 1 = a path prefix exists, 0 = no path */
static int fsg_accepts(fsg_model_t *fsg, char w[][80], int nw)
{
    int ns = fsg_model_n_state(fsg), i, k, it;
    char *cur = calloc((size_t)ns, 1), *nxt = calloc((size_t)ns, 1);
    int res;
    cur[fsg_model_start_state(fsg)] = 1;
    for (k = 0; k <= nw; k++) {
        /* null closure */
        for (it = 0; it < ns; it++) {
            int changed = 0;
            for (i = 0; i < ns; i++) if (cur[i]) {
                fsg_arciter_t *a;
                for (a = fsg_model_arcs(fsg, i); a; a = fsg_arciter_next(a)) {
                    fsg_link_t *l = fsg_arciter_get(a);
                    if (l->wid < 0 && !cur[l->to_state]) { cur[l->to_state] = 1; changed = 1; }
                }
            }
            if (!changed) break;
        }
        if (k == nw) break;
        memset(nxt, 0, (size_t)ns);
        for (i = 0; i < ns; i++) if (cur[i]) {
            fsg_arciter_t *a;
            for (a = fsg_model_arcs(fsg, i); a; a = fsg_arciter_next(a)) {
                fsg_link_t *l = fsg_arciter_get(a);
                char b[80];
                if (l->wid < 0) continue;
                base_form(fsg_model_word_str(fsg, l->wid), b, sizeof b);
                if (strcmp(b, w[k]) == 0) nxt[l->to_state] = 1;
            }
        }
        memcpy(cur, nxt, (size_t)ns);
    }
    res = 0;
    for (i = 0; i < ns; i++) if (cur[i]) res = 1;
    if (cur[fsg_model_final_state(fsg)]) res = 2;
    free(cur); free(nxt);
    return res;
}
static fsg_model_t *active_fsg(decoder_t *d)
{
    if (d->search && strcmp(d->search->type, PS_SEARCH_TYPE_FSG) == 0) return ((fsg_search_t *)d->search)->fsg;
    return NULL;
}

/* ---------- a tiny JSON parser ---------- */
typedef struct jv { int type; double num; char *str; struct jv *kids; struct jv *next; char *key; } jv_t;   /* type: o a s n t f z */
static const char *jp;
static void jws(void) { while (*jp == ' ' || *jp == '\t') jp++; }
static jv_t *jparse(void);
static char *jstring(void)
{
    char *out = malloc(strlen(jp) + 1); size_t o = 0;
    if (*jp != '"') { free(out); return NULL; }
    jp++;
    while (*jp && *jp != '"') {
        if ((unsigned char)*jp < 0x20) { free(out); return NULL; }
        if (*jp == '\\') {
            jp++;
            if (strchr("\"\\/bfnrt", *jp)) out[o++] = *jp++;
            else if (*jp == 'u' && isxdigit((unsigned char)jp[1]) && isxdigit((unsigned char)jp[2]) && isxdigit((unsigned char)jp[3]) && isxdigit((unsigned char)jp[4])) { out[o++] = '?'; jp += 5; }
            else { free(out); return NULL; }
        } else out[o++] = *jp++;
    }
    if (*jp != '"') { free(out); return NULL; }
    jp++; out[o] = 0;
    return out;
}
static jv_t *jparse(void)
{
    jv_t *v = calloc(1, sizeof *v), **tail = &v->kids;
    jws();
    if (*jp == '{' || *jp == '[') {
        char close = *jp == '{' ? '}' : ']';
        v->type = *jp == '{' ? 'o' : 'a';
        jp++; jws();
        if (*jp == close) { jp++; return v; }
        for (;;) {
            jv_t *k; char *key = NULL;
            jws();
            if (v->type == 'o') { key = jstring(); if (!key) return NULL; jws(); if (*jp != ':') return NULL; jp++; }
            k = jparse();
            if (!k) return NULL;
            k->key = key; *tail = k; tail = &k->next;
            jws();
            if (*jp == ',') { jp++; continue; }
            if (*jp == close) { jp++; return v; }
            return NULL;
        }
    }
    if (*jp == '"') { v->type = 's'; v->str = jstring(); return v->str ? v : NULL; }
    if (strncmp(jp, "true", 4) == 0) { v->type = 't'; jp += 4; return v; }
    if (strncmp(jp, "false", 5) == 0) { v->type = 'f'; jp += 5; return v; }
    if (strncmp(jp, "null", 4) == 0) { v->type = 'z'; jp += 4; return v; }
    {
        char *e; const char *s0 = jp;
        if (*jp == '-') jp++;
        if (!isdigit((unsigned char)*jp)) return NULL;
        v->num = strtod(s0, &e);
        if (e == s0) return NULL;
        jp = e; v->type = 'n';
        return v;
    }
}
static jv_t *jget(jv_t *o, const char *key) { jv_t *k; for (k = o ? o->kids : NULL; k; k = k->next) if (k->key && strcmp(k->key, key) == 0) return k; return NULL; }
static int jcount(jv_t *a) { int n = 0; jv_t *k; for (k = a ? a->kids : NULL; k; k = k->next) n++; return n; }

/* ---------- per-result checks ---------- */
static void check_c01_c03(decoder_t *d, int expect_words)
{
    int32 score = 0;
    char hypbuf[1000];
    const char *hyp = decoder_hyp(d, &score);
    segrec_t seg[MAXSEG]; int ns, i, prev_ef = -1;
    if (hyp) { snprintf(hypbuf, sizeof hypbuf, "%s", hyp); hyp = hypbuf; }
    ns = get_segs(d, seg);
    char hw[64][80]; int nh = hyp ? split_words(hyp, hw, 64) : 0;
    fsg_model_t *fsg = active_fsg(d);
    cases++;
    if (hyp && nh) distinct++;
    if (expect_words && !hyp) failf("C01", "no hypothesis for a recording that the grammar covers%s%s", NULL, NULL);
    if (hyp && fsg && want("C01")) {
        if (fsg_accepts(fsg, hw, nh) != 2) failf("C01", "hypothesis \"%s\" is not a sentence of the active grammar%s", hyp, NULL);
    }
    if (!hyp && ns > 0) {
        /* segments without a hypothesis would be a non-sentence result */
        int real = 0; for (i = 0; i < ns; i++) if (!is_null_seg(&seg[i]) && !is_filler(d, &seg[i])) real++;
        if (real) failf("C01", "segmentation reports words but there is no hypothesis%s%s", NULL, NULL);
    }
    if (!want("C03") || ns == 0) return;
    {
        char joined[1000] = ""; long sum = 0; int nfr = decoder_n_frames(d);
        for (i = 0; i < ns; i++) {
            char num[40]; snprintf(num, sizeof num, "%d", i);
            if (is_null_seg(&seg[i])) {
                if (seg[i].ef != seg[i].sf || (prev_ef >= 0 && seg[i].ef != prev_ef)) failf("C03", "null segment %s is not a zero-length marker at the previous end frame%s", num, NULL);
            } else {
                if (seg[i].sf != prev_ef + 1) failf("C03", "segment %s (%s) does not start on the frame after the previous one ends", num, seg[i].word);
                if (seg[i].ef < seg[i].sf) failf("C03", "segment %s (%s) spans no frame", num, seg[i].word);
                prev_ef = seg[i].ef;
                if (!is_filler(d, &seg[i])) { char b[80]; base_form(seg[i].word, b, sizeof b); if (joined[0]) strcat(joined, " "); strncat(joined, b, sizeof joined - strlen(joined) - 2); }
            }
            if (seg[i].ef >= nfr) failf("C03", "segment %s (%s) extends past the frames searched", num, seg[i].word);
            sum += seg[i].ascr + seg[i].lscr;
        }
        if (hyp && strcmp(joined, hyp) != 0) failf("C03", "hypothesis \"%s\" differs from the non-filler segment words \"%s\"", hyp, joined);
        if (hyp && sum != score) { char a[40], b[40]; snprintf(a, sizeof a, "%ld", sum); snprintf(b, sizeof b, "%d", score); failf("C03", "segment scores sum to %s but the path score is %s", a, b); }
    }
}

static int known_c04_scores;
static void check_c04(decoder_t *d)
{
    alignment_t *al;
    segrec_t seg[MAXSEG]; int ns = get_segs(d, seg), i, nw = 0;
    alignment_iter_t *w;
    int prev_end = 0;
    if (!want("C04") || !decoder_hyp(d, NULL)) return;
    al = decoder_alignment(d);
    cases++;
    if (!al) { failf("C04", "no alignment for a result with a hypothesis%s%s", NULL, NULL); return; }
    distinct++;
    /* first-pass dictionary words */
    for (i = 0; i < ns; i++) if (!is_null_seg(&seg[i])) seg[nw++] = seg[i];
    if (alignment_n_words(al) != nw) { char a[20], b[20]; snprintf(a, 20, "%d", alignment_n_words(al)); snprintf(b, 20, "%d", nw); failf("C04", "alignment has %s words, the first pass %s", a, b); return; }
    for (w = alignment_words(al), i = 0; w; w = alignment_iter_next(w), i++) {
        int st, du, pst = -1, pdu_sum = 0, np = 0, wid = seg[i].wid;
        int32 wscore = alignment_iter_get(w)->score; long psum = 0;
        alignment_iter_t *p;
        alignment_iter_seg(w, &st, &du);
        if (strcmp(alignment_iter_name(w), seg[i].word) != 0) failf("C04", "alignment word \"%s\" differs from first-pass word \"%s\"", alignment_iter_name(w), seg[i].word);
        if (st != seg[i].sf || du != seg[i].ef - seg[i].sf + 1) {
            /* known finding F6: on a PARTIAL result the aligner runs to the current frame while the partial segmentation
             * ends at the last history frame -- only the LAST word, same start, longer duration, is tolerated as known */
            if (midutt && i == nw - 1 && st == seg[i].sf && du > seg[i].ef - seg[i].sf + 1) known_c04_partial++;
            else failf("C04", "alignment word \"%s\" has other frames than the first pass%s", seg[i].word, NULL);
        }
        if (st != prev_end) failf("C04", "word level is not contiguous at \"%s\"%s", seg[i].word, NULL);
        prev_end = st + du;
        for (p = alignment_iter_children(w); p; p = alignment_iter_next(p), np++) {
            int ps, pd, sst = -1, sd_sum = 0, nst = 0; long ssum = 0;
            alignment_iter_t *s;
            alignment_iter_seg(p, &ps, &pd);
            if (pst < 0) { pst = ps; if (ps != st) failf("C04", "first phone of \"%s\" does not start with the word%s", seg[i].word, NULL); }
            else if (ps != pst + pdu_sum) failf("C04", "phones of \"%s\" are not contiguous%s", seg[i].word, NULL);
            if (pd <= 0) failf("C04", "phone of \"%s\" has no positive duration%s", seg[i].word, NULL);
            pdu_sum += pd;
            psum += alignment_iter_get(p)->score;
            if (wid >= 0 && np < dict_pronlen(d->dict, wid) && strcmp(alignment_iter_name(p), bin_mdef_ciphone_str(d->acmod->mdef, dict_pron(d->dict, wid, np))) != 0)
                failf("C04", "phone \"%s\" of \"%s\" is not the dictionary pronunciation", alignment_iter_name(p), seg[i].word);
            for (s = alignment_iter_children(p); s; s = alignment_iter_next(s), nst++) {
                int ss, sd;
                alignment_iter_seg(s, &ss, &sd);
                if (sst < 0) { sst = ss; if (ss != ps) failf("C04", "first state of a phone of \"%s\" does not start with the phone%s", seg[i].word, NULL); }
                else if (ss != sst + sd_sum) failf("C04", "states of a phone of \"%s\" are not contiguous%s", seg[i].word, NULL);
                if (sd <= 0) failf("C04", "state under \"%s\" has no positive duration%s", seg[i].word, NULL);
                sd_sum += sd; ssum += alignment_iter_get(s)->score;
            }
            if (nst != bin_mdef_n_emit_state(d->acmod->mdef)) failf("C04", "a phone of \"%s\" does not have one entry per emitting state%s", seg[i].word, NULL);
            if (sd_sum != pd) failf("C04", "states do not partition their phone under \"%s\"%s", seg[i].word, NULL);
            if (ssum != alignment_iter_get(p)->score) failf("C04", "phone score under \"%s\" is not the sum of its states%s", seg[i].word, NULL);
        }
        if (wid >= 0 && np != dict_pronlen(d->dict, wid)) failf("C04", "\"%s\" does not have one phone entry per dictionary phone%s", seg[i].word, NULL);
        /* the states under each phone are that phone's emitting states: the senones of the triphone (phone, left neighbour,
         * right neighbour, position in word), looked up in the model definition independently of the dict2pid tables */
        if (wid >= 0 && np == dict_pronlen(d->dict, wid)) {
            bin_mdef_t *md = d->acmod->mdef; int len = np, j, sil = bin_mdef_silphone(md);
            int lc = i > 0 && seg[i - 1].wid >= 0 ? dict_last_phone(d->dict, seg[i - 1].wid) : sil;
            int rc = i + 1 < nw && seg[i + 1].wid >= 0 ? dict_first_phone(d->dict, seg[i + 1].wid) : sil;
            for (p = alignment_iter_children(w), j = 0; p; p = alignment_iter_next(p), j++) {
                int ci = dict_pron(d->dict, wid, j), l = j == 0 ? lc : dict_pron(d->dict, wid, j - 1), r = j == len - 1 ? rc : dict_pron(d->dict, wid, j + 1);
                int pos = len == 1 ? WORD_POSN_SINGLE : j == 0 ? WORD_POSN_BEGIN : j == len - 1 ? WORD_POSN_END : WORD_POSN_INTERNAL;
                int pid = bin_mdef_phone_id_nearest(md, ci, l, r, pos), ssid = bin_mdef_pid2ssid(md, pid), k = 0;
                alignment_iter_t *st;
                for (st = alignment_iter_children(p); st; st = alignment_iter_next(st), k++) {
                    char exp[20]; snprintf(exp, sizeof exp, "%d", (int)bin_mdef_sseq2sen(md, ssid, k));
                    if (k < bin_mdef_n_emit_state(md) && strcmp(exp, alignment_iter_name(st)) != 0) { failf("C04", "a state under \"%s\" is not an emitting state of its phone in context (senone %s expected)", seg[i].word, exp); alignment_iter_free(st); break; }
                }
            }
        }
        if (pdu_sum != du) failf("C04", "phones do not partition the word \"%s\"%s", seg[i].word, NULL);
        if (psum != wscore) failf("C04", "word score of \"%s\" is not the sum of its phones%s", seg[i].word, NULL);
        /* known finding (known_findings.txt): the clause "each word's score equals the acoustic part of the score the
         * search assigned to that word" does not hold: the aligner's scores are normalised differently per frame and the
         * first state's score is left at 0 */
        if (wscore != seg[i].ascr) known_c04_scores = 1;
    }
}

/* is there a lattice path from node n (matching segment i) through the remaining non-null segments? */
static int fb_path(lattice_t *dag, latnode_t *n, segrec_t *seg, int i, int ns)
{
    int nx = i + 1; latlink_iter_t *li; int ok = 0;
    while (nx < ns && is_null_seg(&seg[nx])) nx++;
    if (nx >= ns) return 1;
    for (li = ps_latnode_exits(n); li; li = ps_latlink_iter_next(li)) {
        latlink_t *l = ps_latlink_iter_link(li); latnode_t *dst = ps_latlink_nodes(l, NULL); int16 a, b;
        if (!ok && latnode_times(dst, &a, &b) == seg[nx].sf && strcmp(ps_latnode_word(dag, dst), seg[nx].word) == 0 && fb_path(dag, dst, seg, nx, ns)) ok = 1;
    }
    return ok;
}
static void check_c11(decoder_t *d)
{
    lattice_t *dag, *again;
    latnode_iter_t *ni;
    segrec_t seg[MAXSEG]; int ns, i, nnodes = 0, nstart = 0, nend = 0;
    if (!want("C11") || !decoder_hyp(d, NULL)) return;
    dag = decoder_lattice(d);
    cases++;
    /* mid-utterance, while a single word instance exists, no lattice is built yet (NULL): the property describes the
     * lattice that IS built, so this is accepted for partial results only */
    if (!dag) { if (!midutt) failf("C11", "no lattice for a result with a hypothesis%s%s", NULL, NULL); return; }
    distinct++;
    again = decoder_lattice(d);
    if (again != dag) failf("C11", "asking for the lattice again returns another object%s%s", NULL, NULL);
    ns = get_segs(d, seg);
    for (ni = ps_latnode_iter(dag); ni; ni = ps_latnode_iter_next(ni)) {
        latnode_t *n = ps_latnode_iter_node(ni);
        latlink_iter_t *li;
        int nin = 0, nout = 0; int16 fef, lef; int sf = latnode_times(n, &fef, &lef);
        nnodes++;
        if (fef > lef || sf > fef + 1 || sf < 0 || lef >= lattice_n_frames(dag) + 1) failf("C11", "node \"%s\" has inconsistent times%s", ps_latnode_word(dag, n), NULL);
        for (li = ps_latnode_exits(n); li; li = ps_latlink_iter_next(li)) {
            latlink_t *l = ps_latlink_iter_link(li); latnode_t *src, *dst = ps_latlink_nodes(l, &src);
            int16 f2, l2, lsf; int dsf = latnode_times(dst, &f2, &l2); int ef = latlink_times(l, &lsf);
            nout++;
            if (src != n) failf("C11", "exit link of \"%s\" does not leave it%s", ps_latnode_word(dag, n), NULL);
            /* the artificial start node "<s>" (several start candidates) sits at frame 0 with epsilon links (end frame 0)
             * to the real start nodes at frame 0: same upstream convention as "</s>" below */
            if (strcmp(ps_latnode_word(dag, n), "<s>") == 0 && ps_latnode_entries(n) == NULL) {
                if (sf != 0 || dsf != 0 || ef != 0) failf("C11", "epsilon link out of the artificial start node has inconsistent frames%s%s", NULL, NULL);
                continue;
            }
            if (dsf <= sf) failf("C11", "link from \"%s\" does not lead to a later node (cycle)%s", ps_latnode_word(dag, n), NULL);
            /* the artificial end node "</s>" (several end candidates) sits AT frame n_frames and its epsilon links carry
             * that frame as end frame (upstream convention, recorded as an observation in DESIGN.md A.3) */
            if (strcmp(ps_latnode_word(dag, dst), "</s>") == 0 && ps_latnode_exits(dst) == NULL) { if (ef != dsf || dsf > lattice_n_frames(dag)) failf("C11", "epsilon link from \"%s\" into the artificial end node has inconsistent frames%s", ps_latnode_word(dag, n), NULL); }
            else if (ef + 1 != dsf) failf("C11", "link from \"%s\" does not end on the frame before its target starts%s", ps_latnode_word(dag, n), NULL);
            if (lsf != sf) failf("C11", "link from \"%s\" does not start with its source node%s", ps_latnode_word(dag, n), NULL);
        }
        for (li = ps_latnode_entries(n); li; li = ps_latlink_iter_next(li)) nin++;
        if (nin == 0) nstart++;
        if (nout == 0) nend++;
    }
    if (nstart != 1 || nend != 1) { char a[20], b[20]; snprintf(a, 20, "%d", nstart); snprintf(b, 20, "%d", nend); failf("C11", "lattice has %s start and %s end nodes (every node must lie on a start-to-end path)", a, b); }
    /* first-best words and boundaries appear as a path (several nodes may share word and start frame -- one per grammar
     * state --, so every candidate is tried: depth-first search) */
    {
        int first = -1;
        for (i = 0; i < ns; i++) if (!is_null_seg(&seg[i])) { first = i; break; }
        if (first >= 0) {
            int ok = 0;
            for (ni = ps_latnode_iter(dag); ni; ni = ps_latnode_iter_next(ni)) {
                latnode_t *n = ps_latnode_iter_node(ni); int16 a, b;
                if (!ok && latnode_times(n, &a, &b) == seg[first].sf && strcmp(ps_latnode_word(dag, n), seg[first].word) == 0 && fb_path(dag, n, seg, first, ns)) ok = 1;
            }
            if (!ok) {
                /* known finding F7: only a first-best result that still is ONE word instance starting at frame 0 is tolerated */
                int nreal = 0, q; for (q = 0; q < ns; q++) if (!is_null_seg(&seg[q])) nreal++;
                c11_single = (nreal == 1 && seg[first].sf == 0);
                if (getenv("E2E_DEBUG")) { printf("DEBUG first-best:"); for (q = 0; q < ns; q++) printf(" %s[%d,%d]", seg[q].word, seg[q].sf, seg[q].ef); printf("\n  lattice nodes:");
                    for (ni = ps_latnode_iter(dag); ni; ni = ps_latnode_iter_next(ni)) { latnode_t *n = ps_latnode_iter_node(ni); int16 a, b; int sf0 = latnode_times(n, &a, &b); printf(" %s@%d(%d..%d)", ps_latnode_word(dag, n), sf0, a, b); } printf("\n"); }
                failf("C11", "first-best segmentation (from \"%s\") is not on a lattice path with its boundaries%s", seg[first].word, NULL);
                c11_single = 0;
            }
        }
    }
}

static void check_json_list(decoder_t *d, jv_t *list, double off, int level, int depth, const char *what);
static void check_c14(decoder_t *d, double off, int level)
{
    const char *line; size_t len; jv_t *root;
    segrec_t seg[MAXSEG]; int ns, i, k; char hypbuf[1000]; const char *hyp;
    jv_t *w;
    if (!want("C14")) return;
    /* the hypothesis string is only valid until the next result call: keep a copy */
    hyp = decoder_hyp(d, NULL);
    if (hyp) { snprintf(hypbuf, sizeof hypbuf, "%s", hyp); hyp = hypbuf; }
    line = decoder_result_json(d, off, level);
    cases++;
    if (!line) {
        /* with alignment levels the line needs an alignment, which exists only for a result with a hypothesis */
        if (level == 0 || hyp) failf("C14", "no JSON line%s%s", NULL, NULL);
        return;
    }
    len = strlen(line);
    if (len == 0 || line[len - 1] != '\n' || memchr(line, '\n', len - 1)) { failf("C14", "JSON result is not one newline-terminated line: %.80s%s", line, NULL); return; }
    jp = line; root = jparse();
    if (!root || root->type != 'o' || (jws(), *jp != '\n')) { failf("C14", "JSON result does not parse as one object: %.120s%s", line, NULL); return; }
    distinct++;
    if (!jget(root, "t") || jget(root, "t")->type != 's' || strcmp(jget(root, "t")->str, hyp ? hyp : "") != 0) failf("C14", "JSON text differs from the hypothesis \"%s\"%s", hyp ? hyp : "", NULL);
    if (!jget(root, "b") || fabs(jget(root, "b")->num - off) > 0.0006) failf("C14", "JSON start differs from the given offset%s%s", NULL, NULL);
    w = jget(root, "w");
    ns = get_segs(d, seg);
    if (level == 0) {
        if (jcount(w) != ns) { failf("C14", "JSON word list and segmentation differ in length%s%s", NULL, NULL); return; }
        for (i = 0, w = w ? w->kids : NULL; w; w = w->next, i++) {
            jv_t *t = jget(w, "t"), *b = jget(w, "b"), *du = jget(w, "d"), *p = jget(w, "p");
            if (!t || !b || !du || !p) { failf("C14", "JSON word entry lacks a field%s%s", NULL, NULL); break; }
            if (strcmp(t->str ? t->str : "", seg[i].word) != 0) failf("C14", "JSON word \"%s\" differs from segment \"%s\"", t->str, seg[i].word);
            if (fabs(b->num - (seg[i].sf / FRATE + off)) > 0.0011) failf("C14", "JSON start of \"%s\" differs from the segment start%s", seg[i].word, NULL);
            if (fabs(du->num - ((seg[i].ef - seg[i].sf + 1) / FRATE)) > 0.0011) failf("C14", "JSON duration of \"%s\" differs from the segment%s", seg[i].word, NULL);
            if (fabs(p->num - logmath_exp(decoder_logmath(d), seg[i].prob)) > 0.0011) failf("C14", "JSON probability of \"%s\" differs from the segment%s", seg[i].word, NULL);
            if (p->num < 0 || p->num > 1.0005) failf("C14", "JSON probability of \"%s\" is not in [0,1]%s", seg[i].word, NULL);
        }
    } else {
        alignment_t *al = decoder_alignment(d);
        if (al) {
            alignment_iter_t *it;
            if (jcount(w) != alignment_n_words(al)) { failf("C14", "JSON word list and alignment differ in length%s%s", NULL, NULL); return; }
            for (it = alignment_words(al), w = w ? w->kids : NULL; it && w; it = alignment_iter_next(it), w = w->next) {
                int st, du; jv_t *t = jget(w, "t"), *b = jget(w, "b"), *dd = jget(w, "d"), *kids = jget(w, "w");
                alignment_iter_t *p;
                alignment_iter_seg(it, &st, &du);
                if (!t || !b || !dd) { failf("C14", "JSON word entry lacks a field%s%s", NULL, NULL); break; }
                if (strcmp(t->str ? t->str : "", alignment_iter_name(it)) != 0) failf("C14", "JSON word \"%s\" differs from alignment word \"%s\"", t->str, alignment_iter_name(it));
                if (fabs(b->num - (st / FRATE + off)) > 0.0011 || fabs(dd->num - du / FRATE) > 0.0011) failf("C14", "JSON times of \"%s\" differ from the alignment%s", alignment_iter_name(it), NULL);
                k = 0; for (p = alignment_iter_children(it); p; p = alignment_iter_next(p)) k++;
                if (jcount(kids) != k) failf("C14", "JSON phone list of \"%s\" differs in length from the alignment%s", alignment_iter_name(it), NULL);
                else {
                    jv_t *pj = kids ? kids->kids : NULL;
                    for (p = alignment_iter_children(it); p && pj; p = alignment_iter_next(p), pj = pj->next) {
                        int ps, pd; alignment_iter_seg(p, &ps, &pd);
                        if (!jget(pj, "t") || strcmp(jget(pj, "t")->str, alignment_iter_name(p)) != 0) failf("C14", "JSON phone differs from alignment phone \"%s\"%s", alignment_iter_name(p), NULL);
                        if (!jget(pj, "b") || fabs(jget(pj, "b")->num - (ps / FRATE + off)) > 0.0011 || !jget(pj, "d") || fabs(jget(pj, "d")->num - pd / FRATE) > 0.0011) failf("C14", "JSON phone times differ from the alignment under \"%s\"%s", alignment_iter_name(it), NULL);
                        if (level >= 2) {
                            alignment_iter_t *s; int nsj = jcount(jget(pj, "w")), nst = 0;
                            for (s = alignment_iter_children(p); s; s = alignment_iter_next(s)) nst++;
                            if (nsj != nst) failf("C14", "JSON state list differs in length from the alignment under \"%s\"%s", alignment_iter_name(it), NULL);
                        } else if (jget(pj, "w")) failf("C14", "JSON lists states at alignment level 1%s%s", NULL, NULL);
                    }
                }
            }
        }
    }
}

static void signature(decoder_t *d, char *out, size_t n)
{
    int32 score = 0; const char *hyp = decoder_hyp(d, &score);
    segrec_t seg[MAXSEG]; int ns, i;
    size_t o = (size_t)snprintf(out, n, "hyp=%s score=%d frames=%d |", hyp ? hyp : "(null)", score, decoder_n_frames(d));
    ns = get_segs(d, seg);
    for (i = 0; i < ns && o < n; i++) o += (size_t)snprintf(out + o, n - o, " %s[%d,%d,%d,%d]", seg[i].word, seg[i].sf, seg[i].ef, seg[i].ascr, seg[i].lscr);
}

/* ---------- scenarios ---------- */
static short pcm[6][70000]; static float fpcm[70000]; static size_t npcm[6];
static void load_raw(int slot, const char *name)
{
    char path[600]; FILE *f;
    snprintf(path, sizeof path, "%s/tests/data/%s", repo, name);
    f = fopen(path, "rb");
    if (!f) { printf("FAIL cannot open %s\n", path); exit(1); }
    npcm[slot] = fread(pcm[slot], 2, 70000, f); fclose(f);
}
static decoder_t *make(const char *model)
{
    char path[600]; config_t *c = config_init(NULL); decoder_t *d;
    snprintf(path, sizeof path, "%s/model/%s", repo, model);
    config_set_str(c, "hmm", path); config_set_str(c, "loglevel", "FATAL"); config_set_str(c, "cmn", "live");
    d = decoder_init(c);
    if (!d) { printf("FAIL decoder_init %s\n", model); exit(1); }
    return d;
}
static void set_gram(decoder_t *d, const char *file, int fsg)
{
    char path[600];
    snprintf(path, sizeof path, "%s/tests/data/%s", repo, file);
    if (fsg) { fsg_model_t *m = fsg_model_readfile(path, decoder_logmath(d), config_float(decoder_config(d), "lw")); if (!m || decoder_set_fsg(d, m) < 0) { printf("FAIL fsg %s\n", path); exit(1); } }
    else if (decoder_set_jsgf_file(d, path) < 0) { printf("FAIL grammar %s\n", path); exit(1); }
}
/* (C01) the invariant the word-arc contracts carry through the lextree (contracts/fsg_wordarc.ghost.h, HIST_SRC), checked on
 * the live search: every history id held by an active HMM of the lextree of grammar state s names a history entry whose
 * arc enters s (entry 0 / no arc: the start state) */
static void check_hist_src(decoder_t *d)
{
    fsg_search_t *fs = (fsg_search_t *)d->search;
    int s, k, bad = 0;
    long slots = 0;
    if (!fs || strcmp(search_module_type(fs), PS_SEARCH_TYPE_FSG) != 0 || !fs->lextree) return;
    for (s = 0; s < fsg_model_n_state(fs->fsg); s++) {
        fsg_pnode_t *pn;
        for (pn = fs->lextree->alloc_head[s]; pn; pn = pn->alloc_next) {
            hmm_t *h = &pn->hmm;
            if (hmm_frame(h) < fs->frame) continue;          /* not active */
            for (k = 0; k <= hmm_n_emit_state(h); k++) {
                int32 sc = k < hmm_n_emit_state(h) ? hmm_score(h, k) : hmm_out_score(h);
                int32 id = k < hmm_n_emit_state(h) ? hmm_history(h, k) : hmm_out_history(h);
                fsg_hist_entry_t *e; int dest;
                if (!(sc BETTER_THAN WORST_SCORE)) continue;
                slots++;
                if (id < 0 || id >= fsg_history_n_entries(fs->history)) { bad++; continue; }
                e = fsg_history_entry_get(fs->history, id);
                dest = e->fsglink ? e->fsglink->to_state : fsg_model_start_state(fs->fsg);
                if (dest != s) bad++;
            }
        }
    }
    cases++;
    if (bad) { char a[40], b[40]; snprintf(a, 40, "%d", bad); snprintf(b, 40, "%ld", slots); failf("C01", "%s of %s live back-pointers in the lextree name a history entry that does not enter the node's grammar state", a, b); }
}
enum { ONE_CALL, BLOCKS, FLOAT32, BLOCKS_EARLY, FULL_POLL, TINY_EARLY };
static void decode(decoder_t *d, int slot, int mode)
{
    size_t pos = 0, i;
    decoder_set_cmn(d, CMN0);
    decoder_start_utt(d);
    if (mode == ONE_CALL) decoder_process_int16(d, pcm[slot], npcm[slot], 0, 0);
    else if (mode == FULL_POLL) {
        /* batch mode (full_utt): every frame is searched by this one call, so end_utt adds no frame; results are asked
         * for BEFORE end_utt (partial: any path prefix) and again after it (final: must reach the final state) */
        const char *ph;
        decoder_process_int16(d, pcm[slot], npcm[slot], 0, 1);
        ph = decoder_hyp(d, NULL);
        if (ph && active_fsg(d) && want("C01")) {
            char w[64][80]; int nw = split_words(ph, w, 64);
            cases++;
            if (fsg_accepts(active_fsg(d), w, nw) == 0) failf("C01", "partial result \"%s\" is not a path prefix of the active grammar%s", ph, NULL);
        }
        (void)decoder_seg_iter(d); (void)decoder_result_json(d, 0, 0);
    }
    else if (mode == FLOAT32) { for (i = 0; i < npcm[slot]; i++) fpcm[i] = pcm[slot][i] / 32768.0f; decoder_process_float32(d, fpcm, npcm[slot], 0, 0); }
    else while (pos < npcm[slot]) {
        /* TINY_EARLY: the first 0.5 s in 10 ms pieces (results asked for while the first words are being formed), then blocks */
        size_t blk = (mode == TINY_EARLY && pos < 8000) ? 160 : 2048;
        size_t n = npcm[slot] - pos < blk ? npcm[slot] - pos : blk;
        const char *ph;
        decoder_process_int16(d, pcm[slot] + pos, n, 0, 0);
        pos += n;
        /* BLOCKS_EARLY: partial results only during the first 1.5 s, none afterwards */
        if (mode == BLOCKS_EARLY && pos > 24000) continue;
        /* (C18) the normalisation state exported mid-utterance is the state in use, to the printed precision */
        if (want("C18") && d->acmod->fcb->cmn_struct) {
            const char *r = decoder_get_cmn(d, 0); cmn_t *cm = d->acmod->fcb->cmn_struct; int q; const char *c = r;
            cases++;
            for (q = 0; r && q < cm->veclen && q < 13; q++) {
                double v = atof(c), m = cm->cmn_mean[q];
                if (fabs(v - m) > 0.006 + 1e-4 * fabs(m)) { char a[40], b[40]; snprintf(a, 40, "%g", v); snprintf(b, 40, "%g", m); failf("C18", "channel-normalisation text exported mid-utterance says %s where the state is %s", a, b); break; }
                c = strchr(c, ','); if (!c) break; c++;
            }
        }
        /* (C04) an alignment request that fails mid-utterance (the aligner cannot always end in the last state of a
         * partial result) must fail again when repeated without new audio: no half-built alignment is handed out */
        if (want("C04") && decoder_hyp(d, NULL)) {
            alignment_t *a1 = decoder_alignment(d);
            cases++;
            if (a1 == NULL) {
                alignment_t *a2 = decoder_alignment(d);
                n_align_retry++;
                if (a2 != NULL) failf("C04", "an alignment request that failed returns an alignment when repeated without new audio (half-built alignment cached)%s%s", NULL, NULL);
            } else { midutt = 1; check_c04(d); midutt = 0; }
        }
        if (want("C11")) { midutt = 1; check_c11(d); midutt = 0; }
        if (want("C01")) check_hist_src(d);
        /* partial result: the label sequence of some path leaving the start state */
        ph = decoder_hyp(d, NULL);
        if (ph && active_fsg(d) && want("C01")) {
            char w[64][80]; int nw = split_words(ph, w, 64);
            cases++;
            if (fsg_accepts(active_fsg(d), w, nw) == 0) failf("C01", "partial result \"%s\" is not a path prefix of the active grammar%s", ph, NULL);
        }
    }
    decoder_end_utt(d);
}
static void check_all(decoder_t *d, int expect_words)
{
    check_c01_c03(d, expect_words);
    check_c04(d);
    check_c11(d);
    check_c14(d, 0.0, 0); check_c14(d, 1.5, 0); check_c14(d, 0.0, 1); check_c14(d, 2.25, 2);
}

int main(int argc, char **argv)
{
    decoder_t *d, *d2;
    char ref[8000], sig[8000];
    unsigned lcg = 99u; size_t i;
    if (argc > 1) PROP = argv[1];
    snprintf(repo, sizeof repo, "%s", getenv("SSW_REPO") ? getenv("SSW_REPO") : "/repo");
    err_set_loglevel(ERR_FATAL);
    load_raw(0, "goforward.raw"); load_raw(3, "goforward_fr.raw");
    {
        /* a float32 recording for a richer grammar (optionals, repetition, alternatives) */
        char path[600]; FILE *f; size_t k, n;
        snprintf(path, sizeof path, "%s/tests/data/pizza-float32.raw", repo);
        f = fopen(path, "rb");
        if (!f) { printf("FAIL cannot open %s\n", path); return 1; }
        n = fread(fpcm, 4, 70000, f); fclose(f);
        for (k = 0; k < n; k++) { float v = fpcm[k] * 32768.0f; pcm[4][k] = (short)(v > 32767 ? 32767 : v < -32768 ? -32768 : v); }
        npcm[4] = n;
    }
    npcm[1] = 16000; memset(pcm[1], 0, sizeof pcm[1]);
    npcm[2] = 16000; for (i = 0; i < 16000; i++) { lcg = lcg * 1103515245u + 12345u; pcm[2][i] = (short)((int)(lcg >> 16 & 0x3fff) - 8192); }

    d = make("en-us");
    if (want("C09")) {
        /* every result interface before any grammar / audio, and on an empty utterance */
        scen = "before any audio";
        cases++; distinct++;
        (void)decoder_hyp(d, NULL); (void)decoder_seg_iter(d); (void)decoder_lattice(d); (void)decoder_alignment(d); (void)decoder_result_json(d, 0, 2); (void)decoder_n_frames(d);
        if (decoder_process_int16(d, pcm[0], 100, 0, 0) > 0) failf("C09", "audio before start_utt is searched%s%s", NULL, NULL);
        (void)decoder_end_utt(d);
    }
    if (want("C09")) {
        /* grammars that name a word missing from the dictionary: refused, nothing freed twice, decoder still usable */
        char path[700], mdl[600]; FILE *f; config_t *c2; decoder_t *d3;
        scen = "grammar with a word that is not in the dictionary";
        cases++; distinct++;
        if (decoder_set_jsgf_string(d, "#JSGF V1.0;\ngrammar g;\npublic <s> = go zzyzzxq;\n") == 0) failf("C09", "JSGF grammar with an unknown word is accepted%s%s", NULL, NULL);
        (void)decoder_set_align_text(d, "go zzyzzxq");
        snprintf(path, sizeof path, "%s/e2e_unknown_%d.fsg", getenv("TMPDIR") ? getenv("TMPDIR") : "/tmp", (int)getpid());
        f = fopen(path, "w");
        if (f) {
            fputs("FSG_BEGIN g\nNUM_STATES 2\nSTART_STATE 0\nFINAL_STATE 1\nTRANSITION 0 1 1.0 zzyzzxq\nFSG_END\n", f); fclose(f);
            c2 = config_init(NULL);
            snprintf(mdl, sizeof mdl, "%s/model/en-us", repo);
            config_set_str(c2, "hmm", mdl); config_set_str(c2, "loglevel", "FATAL"); config_set_str(c2, "fsg", path);
            d3 = decoder_init(c2);
            if (d3) { failf("C09", "decoder_init accepts an FSG file with an unknown word%s%s", NULL, NULL); decoder_free(d3); }
            unlink(path);
        }
    }
    set_gram(d, "goforward.gram", 0);
    if (want("C09")) {
        scen = "empty utterance / out-of-order calls";
        cases++; distinct++;
        decoder_start_utt(d); (void)decoder_start_utt(d); decoder_end_utt(d); (void)decoder_end_utt(d);
        (void)decoder_hyp(d, NULL); (void)decoder_seg_iter(d); (void)decoder_lattice(d); (void)decoder_alignment(d);
        (void)decoder_result_json(d, 0, 2);
        { const char *j = decoder_result_json(d, 0, 0); if (!j || j[strlen(j) - 1] != '\n') failf("C09", "empty result has no JSON line%s%s", NULL, NULL); }
        if (decoder_process_int16(d, pcm[0], 100, 0, 0) > 0) failf("C09", "audio after end_utt is searched%s%s", NULL, NULL);
        (void)decoder_set_align_text(d, ""); (void)decoder_add_word(d, "", "AH", 1); (void)decoder_add_word(d, "x", "", 1); (void)decoder_lookup_word(d, "nosuchword");
        set_gram(d, "goforward.gram", 0);
    }

    scen = "en-us goforward.raw, JSGF grammar, one call";
    decode(d, 0, ONE_CALL); check_all(d, 1); signature(d, ref, sizeof ref);
    printf("SAMPLE %s: %.300s\n", scen, ref);
    if (!strstr(ref, "go forward ten meters")) { printf("FAIL reference decode does not recognise the recording: %.200s\n", ref); return 1; }
    /* an utterance of exactly the same length but other content right after: nothing cached for the previous utterance
     * (alignment, lattice, JSON) may be served again */
    scen = "en-us goforward.raw rotated by 0.4 s (same length, other boundaries), JSGF grammar, one call";
    npcm[5] = npcm[0];
    memcpy(pcm[5], pcm[0] + 6400, (npcm[0] - 6400) * sizeof(short));
    memcpy(pcm[5] + (npcm[0] - 6400), pcm[0], 6400 * sizeof(short));
    decode(d, 5, ONE_CALL); check_all(d, 0);
    decode(d, 0, ONE_CALL); check_all(d, 1);
    scen = "en-us goforward.raw, JSGF grammar, 2048-sample blocks with partial results";
    decode(d, 0, BLOCKS); check_all(d, 1);
    scen = "en-us goforward.raw, JSGF grammar, float32";
    decode(d, 0, FLOAT32); check_all(d, 1);
    scen = "en-us digital silence";
    decode(d, 1, ONE_CALL); check_all(d, 0);
    scen = "en-us white noise";
    decode(d, 2, BLOCKS); check_all(d, 0);
    scen = "en-us pizza recording, pizza.gram (optionals, repetition), one call";
    set_gram(d, "pizza.gram", 0);
    decode(d, 4, ONE_CALL); check_all(d, 0);
    scen = "en-us pizza recording, pizza.gram, 2048-sample blocks with partial results";
    decode(d, 4, BLOCKS); check_all(d, 0);
    scen = "en-us goforward.raw, pizza.gram, 10 ms pieces with results during the first 0.5 s";
    decode(d, 0, TINY_EARLY); check_all(d, 0);
    scen = "en-us pizza recording, pizza.gram, float32";
    decode(d, 4, FLOAT32); check_all(d, 0);
    scen = "en-us goforward.raw, goforward.fsg";
    set_gram(d, "goforward.fsg", 1);
    decode(d, 0, ONE_CALL); check_all(d, 1);
    /* recordings cut short of the end of the sentence: a hypothesis only if the path reaches the final state, and never
     * a segmentation without one */
    {
        static const size_t cut[] = { 26000, 20000, 13000 }; size_t full = npcm[0]; int q;
        for (q = 0; q < 3; q++) { scen = "en-us goforward.raw cut short (26000 / 20000 / 13000 samples), goforward.fsg"; npcm[0] = cut[q]; decode(d, 0, ONE_CALL); check_all(d, 0); decode(d, 0, BLOCKS); check_all(d, 0); }
        npcm[0] = full;
    }
    /* competing endings: the best path in the last frame need not be the best path that reaches the final state; results
     * polled before end_utt in batch mode must not stick */
    {
        static const size_t cut[] = { 22000, 24000, 26000, 30000 }; size_t full = npcm[0]; int q;
        if (decoder_set_jsgf_string(d, "#JSGF V1.0;\ngrammar g;\npublic <s> = go forward tan | go forward ten meters;\n") == 0) {
            for (q = 0; q < 4; q++) { scen = "en-us goforward.raw cut short (22000..30000 samples), grammar with competing endings, batch mode with results polled before end_utt";
                npcm[0] = cut[q]; decode(d, 0, FULL_POLL); check_all(d, 0); decode(d, 0, BLOCKS); check_all(d, 0); }
            npcm[0] = full;
        } else failf("C09", "grammar with competing endings refused%s%s", NULL, NULL);
        set_gram(d, "goforward.fsg", 1);
    }
    /* a grammar whose probabilities sit on null transitions (also the one into the final state) and on alternatives */
    {
        char path[700]; FILE *f; fsg_model_t *m;
        snprintf(path, sizeof path, "%s/e2e_wnull_%d.fsg", getenv("TMPDIR") ? getenv("TMPDIR") : "/tmp", (int)getpid());
        f = fopen(path, "w");
        if (f) {
            fputs("FSG_BEGIN wnull\nNUM_STATES 8\nSTART_STATE 0\nFINAL_STATE 7\n"
                  "TRANSITION 0 1 0.7 go\nTRANSITION 0 1 0.3 going\nTRANSITION 1 2 1.0 forward\nTRANSITION 1 2 0.5 backward\nTRANSITION 2 3 0.6\n"
                  "TRANSITION 3 4 0.5 ten\nTRANSITION 3 4 0.5 two\nTRANSITION 4 5 0.8 meters\nTRANSITION 4 5 0.2 meter\nTRANSITION 5 6 0.4\nTRANSITION 6 7 0.5\nTRANSITION 4 7 0.1\nFSG_END\n", f);
            fclose(f);
            m = fsg_model_readfile(path, decoder_logmath(d), config_float(decoder_config(d), "lw"));
            unlink(path);
            if (m && decoder_set_fsg(d, m) == 0) {
                scen = "en-us goforward.raw, grammar with weighted null transitions (also into the final state)";
                decode(d, 0, ONE_CALL); check_all(d, 1);
                decode(d, 0, BLOCKS); check_all(d, 1);
            } else failf("C09", "grammar with weighted null transitions refused%s%s", NULL, NULL);
        }
    }
    scen = "en-us goforward.raw, JSGF grammar, partial results during the first 1.5 s only";
    set_gram(d, "goforward.gram", 0);
    decode(d, 0, BLOCKS_EARLY); check_all(d, 1);
    scen = "en-us goforward.raw, forced alignment text";
    if (decoder_set_align_text(d, "go forward ten meters") < 0) failf("C09", "alignment text refused%s%s", NULL, NULL);
    decode(d, 0, ONE_CALL); check_all(d, 1);
    /* word spellings with a quote and a backslash: the JSON line stays valid and says the same words */
    scen = "en-us goforward.raw, a word spelled with a quote and a backslash";
    if (decoder_add_word(d, "f\"or\\ward", "F AO R W ER D", 1) >= 0
        && decoder_set_jsgf_string(d, "#JSGF V1.0;\ngrammar g;\npublic <s> = go f\"or\\ward ten meters;\n") == 0) { decode(d, 0, ONE_CALL); check_all(d, 1); }
    else failf("C09", "word with a quote and a backslash is refused%s%s", NULL, NULL);
    /* one-phone words inside the sentence (cross-word contexts to both sides) */
    scen = "en-us goforward.raw, forced alignment text with one-phone words inside";
    if (decoder_set_align_text(d, "go a forward i ten oh meters") == 0) { decode(d, 0, ONE_CALL); check_all(d, 0); }
    if (want("C08") || want("C09")) {
        scen = "en-us goforward.raw again after other utterances and grammar switches";
        set_gram(d, "goforward.gram", 0);
        decode(d, 0, ONE_CALL); signature(d, sig, sizeof sig);
        cases++; distinct++;
        if (strcmp(sig, ref) != 0) { failf("C08", "result differs from the first decode of the same audio: %.200s%s", sig, NULL); failf("C09", "decoder no longer reproduces the reference result%s%s", NULL, NULL); }
        scen = "fresh decoder";
        d2 = make("en-us"); set_gram(d2, "goforward.gram", 0);
        decode(d2, 0, ONE_CALL); signature(d2, sig, sizeof sig);
        cases++; distinct++;
        if (strcmp(sig, ref) != 0) failf("C08", "a fresh decoder gives another result: %.200s%s", sig, NULL);
        scen = "two decoders interleaved";
        {
            size_t pos = 0; char s1[8000], s2[8000];
            decoder_set_cmn(d, CMN0); decoder_set_cmn(d2, CMN0);
            decoder_start_utt(d); decoder_start_utt(d2);
            /* d gets the recording, d2 gets noise in between, then d2 decodes the recording too */
            while (pos < npcm[0]) { size_t n = npcm[0] - pos < 4000 ? npcm[0] - pos : 4000; decoder_process_int16(d, pcm[0] + pos, n, 0, 0); decoder_process_int16(d2, pcm[2] + (pos % 12000), 4000, 0, 0); pos += n; }
            decoder_end_utt(d); decoder_end_utt(d2);
            signature(d, s1, sizeof s1);
            decode(d2, 0, ONE_CALL); signature(d2, s2, sizeof s2);
            cases++; distinct++;
            /* d was fed in 4000-sample pieces: chunking independence is C07's business, compare the two decoders' words only */
            if (!strstr(s1, "hyp=go forward ten meters") ) failf("C08", "decoder fed next to a second decoder lost its result: %.200s%s", s1, NULL);
            if (strcmp(s2, ref) != 0) failf("C08", "second decoder does not reproduce the reference after interleaved use: %.200s%s", s2, NULL);
        }
        decoder_free(d2);
    }
    decoder_free(d);
    /* another frame rate (times in the JSON line are frame index / frame rate + offset) */
    {
        char path[600]; config_t *c = config_init(NULL);
        snprintf(path, sizeof path, "%s/model/en-us", repo);
        config_set_str(c, "hmm", path); config_set_str(c, "loglevel", "FATAL"); config_set_str(c, "cmn", "live"); config_set_int(c, "frate", 80);
        d = decoder_init(c);
        if (d) {
            FRATE = 80.0;
            scen = "en-us goforward.raw at 80 frames per second, JSGF grammar";
            set_gram(d, "goforward.gram", 0);
            decode(d, 0, ONE_CALL); check_all(d, 0);
            decode(d, 0, BLOCKS); check_all(d, 0);
            decoder_free(d);
            FRATE = 100.0;
        } else failf("C09", "decoder with frate 80 is not created%s%s", NULL, NULL);
    }
    scen = "fr-fr goforward_fr.raw, JSGF grammar";
    d = make("fr-fr"); set_gram(d, "goforward_fr.gram", 0);
    decode(d, 3, ONE_CALL); check_all(d, 1);
    decode(d, 3, BLOCKS); check_all(d, 1);
    decoder_free(d);
    if (known_c04_partial && want("C04")) printf("KNOWN partial-result alignment gives a word other frames than the partial segmentation\n");
    if (known_c11_partial && want("C11")) printf("KNOWN mid-utterance lattice does not contain the first-best segmentation\n");
    printf("SAMPLE mid-utterance: %ld partial alignments with other word frames than the partial segmentation, %ld lattices without the first-best path (known findings)\n", known_c04_partial, known_c11_partial);
    if (known_c04_scores && want("C04")) printf("KNOWN alignment word scores differ from the acoustic scores of the first pass\n");
    printf("SAMPLE alignment requests that failed mid-utterance and were repeated: %ld\n", n_align_retry);
    printf("CASES %ld\nDISTINCT %ld\n", cases, distinct);
    return fails ? 1 : 0;
}
