/* C02 native stand-in (bounded metamorphic run; NOT a proof): "with pruning disabled the reported score is the true
 * Viterbi optimum over all sentences of the grammar".  The optimum over a union of grammars is the maximum of the optima
 * of its parts, so for sentences S1, S2 (words that share leading phones: for / four / ford / fork / forth / forward /
 * forwards, meter / meters, ten / tenth, go / goes) and the grammar  S1 | S2  -- an FSG whose arcs all have probability
 * 1, in both orders, with separate paths and with the states of the common leading words shared --
 *         score(S1 | S2)  ==  max(score(S1), score(S2))      and the reported words are those of the better part,
 * with all beams at 0 (no pruning), batch CMN on the whole utterance and compallsen (senone normalisation independent of
 * the active set), on tests/data/goforward.raw with the bundled en-us model.
 */
#include <stdio.h>
#include <stdlib.h>
#include <string.h>
#include <soundswallower/configuration.h>
#include <soundswallower/decoder.h>
#include <soundswallower/err.h>
#include <soundswallower/fsg_model.h>

static short pcm[70000]; static size_t npcm;
static long cases, distinct, fails;

/* the grammar of 1 or 2 sentences as an FSG whose arcs all have probability 1 (a JSGF alternative would put 0.5 on each
 * branch); merge = 1 shares the states of the common leading words */
static int decode(decoder_t *d, const char *s1, const char *s2, int merge, char *hyp, size_t hn)
{
    int32 score = 0; const char *h;
    char w1[8][40], w2[8][40]; int n1 = 0, n2 = 0, k, common = 0, nstate, st;
    fsg_model_t *fsg;
    { const char *p = s1; while (*p && n1 < 8) { size_t l = strcspn(p, " "); snprintf(w1[n1++], 40, "%.*s", (int)l, p); p += l; while (*p == ' ') p++; } }
    if (s2) { const char *p = s2; while (*p && n2 < 8) { size_t l = strcspn(p, " "); snprintf(w2[n2++], 40, "%.*s", (int)l, p); p += l; while (*p == ' ') p++; } }
    if (merge) while (common < n1 - 1 && common < n2 - 1 && strcmp(w1[common], w2[common]) == 0) common++;
    nstate = 1 + n1 + (n2 ? n2 - common : 0);       /* 0 = start, state n1 = final */
    fsg = fsg_model_init("g", decoder_logmath(d), config_float(decoder_config(d), "lw"), nstate);
    fsg->start_state = 0; fsg->final_state = n1;
    for (k = 0; k < n1; k++) fsg_model_trans_add(fsg, k, k + 1, 0, fsg_model_word_add(fsg, w1[k]));
    for (k = common, st = n1 + 1; k < n2; k++) {
        int from = k == common ? common : st - 1, to = k == n2 - 1 ? n1 : st++;
        fsg_model_trans_add(fsg, from, to, 0, fsg_model_word_add(fsg, w2[k]));
    }
    if (decoder_set_fsg(d, fsg) < 0) { printf("FAIL grammar refused: %s | %s\n", s1, s2 ? s2 : ""); fails++; hyp[0] = 0; return 1; }
    decoder_start_utt(d);
    decoder_process_int16(d, pcm, npcm, 0, 1);
    decoder_end_utt(d);
    h = decoder_hyp(d, &score);
    snprintf(hyp, hn, "%s", h ? h : "(null)");
    return h ? score : 1;
}

int main(int argc, char **argv)
{
    int thorough = argc > 1 && strcmp(argv[1], "thorough") == 0;
    const char *repo = getenv("SSW_REPO") ? getenv("SSW_REPO") : "/repo";
    static const char *W2[] = { "forward", "fork", "for", "ford", "forth", "forwards", "four" };
    static const char *W4[] = { "meters", "meter" };
    static const char *W3[] = { "ten", "tenth" };
    static const char *W1[] = { "go", "goes" };
    char path[600], S[64][100], H[64][200]; int SC[64], ns = 0, i, j;
    config_t *c; decoder_t *d; FILE *f;
    err_set_loglevel(ERR_FATAL);
    snprintf(path, sizeof path, "%s/tests/data/goforward.raw", repo);
    f = fopen(path, "rb");
    if (!f) { printf("FAIL cannot open %s\n", path); return 1; }
    npcm = fread(pcm, 2, 70000, f); fclose(f);
    c = config_init(NULL);
    snprintf(path, sizeof path, "%s/model/en-us", repo);
    config_set_str(c, "hmm", path); config_set_str(c, "loglevel", "FATAL");
    config_set_str(c, "cmn", "batch"); config_set_bool(c, "compallsen", 1);
    config_set_float(c, "beam", 0.0); config_set_float(c, "pbeam", 0.0); config_set_float(c, "wbeam", 0.0);
    d = decoder_init(c);
    if (!d) { printf("FAIL decoder_init\n"); return 1; }
    /* the sentences: one word varied at a time (plus, thorough, two at a time) */
    for (i = 0; i < 7; i++) snprintf(S[ns++], 100, "go %s ten meters", W2[i]);
    snprintf(S[ns++], 100, "go forward ten %s", W4[1]);
    snprintf(S[ns++], 100, "go forward %s meters", W3[1]);
    snprintf(S[ns++], 100, "%s forward ten meters", W1[1]);
    if (thorough) for (i = 1; i < 7; i++) snprintf(S[ns++], 100, "go %s ten meter", W2[i]);
    for (i = 0; i < ns; i++) {
        SC[i] = decode(d, S[i], NULL, 0, H[i], sizeof H[i]);
        cases++;
        if (SC[i] > 0) { printf("FAIL no hypothesis for the single sentence \"%s\" without pruning\n", S[i]); fails++; }
        else if (strcmp(H[i], S[i]) != 0) { printf("FAIL single-sentence grammar \"%s\" reports \"%s\"\n", S[i], H[i]); fails++; }
    }
    printf("SAMPLE score(\"%s\") = %d, score(\"%s\") = %d\n", S[0], SC[0], S[1], SC[1]);
    for (i = 0; i < ns && fails < 10; i++) for (j = 0; j < ns; j++) {
        char h[200]; int sc, best, form;
        if (i == j || (!thorough && i > 2 && j > 2)) continue;     /* quick: every pair that involves one of the first three */
        best = SC[i] > SC[j] ? SC[i] : SC[j];
        for (form = 0; form < 2; form++) {
            sc = decode(d, S[i], S[j], form, h, sizeof h);
            cases++; distinct++;
            if (sc != best) {
                if (fails++ < 10) printf("FAIL score of the grammar \"%s | %s\" is %d (\"%s\") but its parts alone score %d and %d: not the optimum over the grammar's sentences\n", S[i], S[j], sc, h, SC[i], SC[j]);
            } else if (SC[i] != SC[j] && strcmp(h, SC[i] > SC[j] ? S[i] : S[j]) != 0) {
                if (fails++ < 10) printf("FAIL grammar \"%s | %s\" reports \"%s\", not the better of its two sentences\n", S[i], S[j], h);
            }
        }
    }
    decoder_free(d);
    printf("CASES %ld\nDISTINCT %ld\n", cases, distinct);
    return fails ? 1 : 0;
}
