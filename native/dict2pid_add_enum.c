/* C16 native stand-in (bounded differential run; NOT a proof): "after a word is added ... it is usable immediately".
 * The search needs, for a word w, the cross-word triphone tables of dict2pid: ldiph_lc[first][second][*] and
 * rssid[last][second-last] (multi-phone words), lrssid / lrdiph_rc[first][*][*] (single-phone words).
 * For random word sequences over a SMALL phone alphabet (so that word-initial and word-final phone pairs collide in
 * every possible way with the history of the dictionary) every word is added with dict_add_word + dict2pid_add_word
 * to a growing dictionary, and its table entries are compared with those of a dict2pid built from scratch
 * (dict2pid_build) over a dictionary that contains the same words from the start.  Real en-us model definition.
 * quick: 40 histories x 40 words over 4..7 phones, word lengths 1..5; thorough: 200 histories.
 */
#include <stdio.h>
#include <stdlib.h>
#include <string.h>
#include <soundswallower/bin_mdef.h>
#include <soundswallower/dict.h>
#include <soundswallower/dict2pid.h>
#include <soundswallower/err.h>

static long cases, distinct, fails;
static bin_mdef_t *mdef;

static int same_xwd(const xwdssid_t *a, const xwdssid_t *b, int nci)
{
    int i;
    if (a->n_ssid != b->n_ssid) return 0;
    if (a->n_ssid == 0) return 1;
    for (i = 0; i < a->n_ssid; i++) if (a->ssid[i] != b->ssid[i]) return 0;
    for (i = 0; i < nci; i++) if (a->cimap[i] != b->cimap[i]) return 0;
    return 1;
}

static const char *check_word(dict2pid_t *a, dict_t *da, int wa, dict2pid_t *r, dict_t *dr, int wr)
{
    int nci = bin_mdef_n_ciphone(mdef), l, rr;
    if (dict_pronlen(da, wa) != dict_pronlen(dr, wr)) return "pronunciation length differs";
    if (dict_pronlen(da, wa) > 1) {
        int b = dict_first_phone(da, wa), s = dict_second_phone(da, wa), la = dict_last_phone(da, wa), sl = dict_second_last_phone(da, wa);
        for (l = 0; l < nci; l++) if (a->ldiph_lc[b][s][l] != r->ldiph_lc[b][s][l]) return "word-initial triphone table ldiph_lc[first][second][*] differs from a freshly built dict2pid";
        if (r->rssid[la][sl].n_ssid == 0) return "reference has no word-final table (harness error)";
        if (!same_xwd(&a->rssid[la][sl], &r->rssid[la][sl], nci)) return "word-final table rssid[last][second-last] is missing or differs from a freshly built dict2pid";
    } else {
        int b = dict_first_phone(da, wa);
        for (l = 0; l < nci; l++) {
            for (rr = 0; rr < nci; rr++) if (a->lrdiph_rc[b][l][rr] != r->lrdiph_rc[b][l][rr]) return "single-phone table lrdiph_rc[first][*][*] differs from a freshly built dict2pid";
        }
    }
    return NULL;
}

int main(int argc, char **argv)
{
    int thorough = argc > 1 && strcmp(argv[1], "thorough") == 0;
    const char *repo = getenv("SSW_REPO") ? getenv("SSW_REPO") : "/repo";
    char path[600];
    unsigned lcg = 20240917u;
    int h, nh = thorough ? 200 : 40, NW = 40, printed = 0;
    err_set_loglevel(ERR_FATAL);
    snprintf(path, sizeof path, "%s/model/en-us/mdef", repo);
    mdef = bin_mdef_read(NULL, path);
    if (!mdef) { printf("FAIL cannot read %s\n", path); return 1; }
    for (h = 0; h < nh; h++) {
        int nph = 4 + h % 4, alpha[8], w, k;
        s3cipid_t prons[64][5]; int plen[64]; char names[64][16];
        dict_t *da = dict_init(NULL, mdef);
        dict2pid_t *a;
        char hist[1200]; size_t ho = 0;
        /* real phones only: silence / filler phones do not occur inside pronunciations (and dict2pid_build treats a
         * single-phone word as having silence to its left, which would make the from-scratch reference order dependent
         * for words ending in "SIL x") */
        for (k = 0; k < nph; k++) {
            do { lcg = lcg * 1103515245u + 12345u; alpha[k] = (int)((lcg >> 16) % (unsigned)bin_mdef_n_ciphone(mdef)); }
            while (alpha[k] == bin_mdef_silphone(mdef) || bin_mdef_is_fillerphone(mdef, alpha[k]));
        }
        a = dict2pid_build(mdef, da);
        for (w = 0; w < NW; w++) {
            int wa, wr, j;
            dict_t *dr; dict2pid_t *r;
            const char *err;
            lcg = lcg * 1103515245u + 12345u; plen[w] = 1 + (int)((lcg >> 16) % 5);
            for (k = 0; k < plen[w]; k++) { lcg = lcg * 1103515245u + 12345u; prons[w][k] = (s3cipid_t)alpha[(lcg >> 16) % (unsigned)nph]; }
            snprintf(names[w], sizeof names[w], "w%d", w);
            if (ho < sizeof hist - 60) {
                ho += (size_t)snprintf(hist + ho, sizeof hist - ho, "%s%s =", w ? "; " : "", names[w]);
                for (k = 0; k < plen[w]; k++) ho += (size_t)snprintf(hist + ho, sizeof hist - ho, " %s", bin_mdef_ciphone_str(mdef, prons[w][k]));
            }
            /* incremental */
            wa = dict_add_word(da, names[w], prons[w], plen[w]);
            if (wa < 0) { if (fails++ < 8) printf("FAIL dict_add_word refuses a well-formed word: %s\n", hist); break; }
            dict2pid_add_word(a, wa);
            /* from scratch */
            dr = dict_init(NULL, mdef);
            for (j = 0; j <= w; j++) dict_add_word(dr, names[j], prons[j], plen[j]);
            r = dict2pid_build(mdef, dr);
            wr = dict_wordid(dr, names[w]);
            cases++;
            if (w > 0) distinct++;
            err = check_word(a, da, wa, r, dr, wr);
            if (err) { if (fails++ < 8) printf("FAIL added word is not usable like a word known from the start: %s (history: %s)\n", err, hist); }
            /* and every earlier word is still served by the same entries */
            for (j = 0; j < w && !err; j++) {
                const char *e2 = check_word(a, da, dict_wordid(da, names[j]), r, dr, dict_wordid(dr, names[j]));
                if (e2) { if (fails++ < 8) printf("FAIL an earlier word's tables changed after an addition: %s (history: %s)\n", e2, hist); break; }
            }
            dict2pid_free(r);
            dict_free(dr);
        }
        if (!printed && h == 1) { printf("SAMPLE history over %d phones: %.300s ...\n", nph, hist); printed = 1; }
        dict2pid_free(a);
        dict_free(da);
    }
    bin_mdef_free(mdef);
    printf("CASES %ld\nDISTINCT %ld\n", cases, distinct);
    return fails ? 1 : 0;
}
