/* C10 native stand-in (bounded, exhaustive over the stated family; NOT a proof): the real text-input parsers on EVERY
 * token sequence of bounded length over a per-format token alphabet, each text in an exact-size heap block (no
 * terminating NUL unless the API takes a C string) under AddressSanitizer.  exit() is trapped (-Dexit=ssw_exit),
 * abort()/failed assert(), sanitizer reports and hangs (alarm) are reported with the offending text.
 * Whatever object comes back is used (written out / compiled / queried) and freed.
 *
 *   fsg    fsg_model_read_s3file                     21 tokens (declarations, transitions with in- and out-of-range states,
 *                                                    bad probabilities, a 33-bit state count, missing fields, no final newline)
 *   json   config_parse_json                         12 tokens (braces, keys known/unknown, quoted/bare, colon, comma, values,
 *                                                    brackets, a lone quote)
 *   jsgf   jsgf_parse_string + jsgf_build_fsg        20 tokens after a fixed "#JSGF V1.0; grammar g;" header
 *   dict   dict_init_s3file (en-us phone set)         16 lines: 1 .. 200 phones per line, comments, alternates, unknown phones
 */
#include <stdio.h>
#include <stdlib.h>
#include <string.h>
#include <setjmp.h>
#include <signal.h>
#include <unistd.h>
#include <soundswallower/bin_mdef.h>
#include <soundswallower/configuration.h>
#include <soundswallower/dict.h>
#include <soundswallower/err.h>
#include <soundswallower/fsg_model.h>
#include <soundswallower/jsgf.h>
#include <soundswallower/logmath.h>
#include <soundswallower/s3file.h>

static jmp_buf exit_jmp;
static int exit_armed;
static char cur[8192];
static const char *cur_fmt = "?";
static long cases, distinct, fails, accepted;

static void show(char *out, size_t n)
{
    size_t o = 0; const char *p;
    for (p = cur; *p && o + 5 < n; p++) {
        if (*p == '\n') { out[o++] = '\\'; out[o++] = 'n'; }
        else out[o++] = *p;
    }
    out[o] = 0;
}
static void report(const char *what)
{
    static char t[17000];
    show(t, sizeof t);
    printf("FAIL %s input \"%s\": %s\n", cur_fmt, t, what);
    fflush(stdout);
}
void ssw_exit(int c)
{
    (void)c;
    if (exit_armed) longjmp(exit_jmp, 1);
    _exit(3);
}
static void on_signal(int sig)
{
    report(sig == SIGALRM ? "does not terminate (10 s)" : sig == SIGABRT ? "abort() / failed assert()" : "fatal signal");
    _exit(1);
}
static void on_asan_death(void) { report("AddressSanitizer report (out-of-bounds access / double free / use after free)"); }
extern void __sanitizer_set_death_callback(void (*)(void));

static logmath_t *lm;

static void run_fsg(const char *text, size_t len)
{
    char *exact = malloc(len ? len : 1);
    s3file_t *s;
    fsg_model_t *fsg;
    memcpy(exact, text, len);
    s = s3file_init(exact, len);
    fsg = fsg_model_read_s3file(s, lm, 1.0f);
    s3file_free(s);
    if (fsg) {
        char *buf = NULL; size_t bl = 0; FILE *fp = open_memstream(&buf, &bl);
        int i;
        accepted++;
        fsg_model_write(fsg, fp);
        fclose(fp); free(buf);
        if (fsg_model_start_state(fsg) < 0 || fsg_model_start_state(fsg) >= fsg_model_n_state(fsg)
            || fsg_model_final_state(fsg) < 0 || fsg_model_final_state(fsg) >= fsg_model_n_state(fsg)) report("returned grammar has a start / final state out of range");
        for (i = 0; i < fsg_model_n_state(fsg); i++) {
            fsg_arciter_t *it;
            for (it = fsg_model_arcs(fsg, i); it; it = fsg_arciter_next(it)) {
                fsg_link_t *l = fsg_arciter_get(it);
                if (l->from_state != i || l->to_state < 0 || l->to_state >= fsg_model_n_state(fsg) || l->wid >= fsg_model_n_word(fsg)) { report("returned grammar has an arc out of range"); fails++; }
            }
        }
        fsg_model_add_silence(fsg, "<sil>", -1, 0.005f);
        fsg_model_free(fsg);
    }
    free(exact);
}

static void run_json(const char *text, size_t len)
{
    /* the API takes a C string: exact-size block including the NUL */
    char *exact = malloc(len + 1);
    config_t *c;
    memcpy(exact, text, len); exact[len] = 0;
    c = config_parse_json(NULL, exact);
    if (c) {
        accepted++;
        (void)config_int(c, "samprate");
        (void)config_str(c, "hmm");
        config_free(c);
    }
    free(exact);
}

static void run_jsgf(const char *text, size_t len)
{
    char *exact = malloc(len + 1);
    jsgf_t *j;
    memcpy(exact, text, len); exact[len] = 0;
    j = jsgf_parse_string(exact, NULL);
    if (j) {
        jsgf_rule_t *r = jsgf_get_public_rule(j);
        fsg_model_t *fsg = jsgf_build_fsg(j, r, lm, 1.0f);
        accepted++;
        if (fsg) {
            char *buf = NULL; size_t bl = 0; FILE *fp = open_memstream(&buf, &bl);
            fsg_model_write(fsg, fp);
            fclose(fp); free(buf);
            fsg_model_free(fsg);
        }
        jsgf_grammar_free(j);
    }
    free(exact);
}

static bin_mdef_t *mdef;
static void run_dict(const char *text, size_t len)
{
    char *exact = malloc(len ? len : 1);
    s3file_t *s;
    dict_t *d;
    memcpy(exact, text, len);
    s = s3file_init(exact, len);
    d = dict_init_s3file(NULL, mdef, s, NULL);
    s3file_free(s);
    if (d) {
        int w;
        accepted++;
        for (w = 0; w < dict_size(d); w++) {
            int p;
            if (dict_wordid(d, dict_wordstr(d, w)) < 0) { report("a word of the returned dictionary cannot be looked up"); fails++; }
            for (p = 0; p < dict_pronlen(d, w); p++) if (dict_pron(d, w, p) < 0 || dict_pron(d, w, p) >= bin_mdef_n_ciphone(mdef)) { report("returned dictionary has a phone id out of range"); fails++; }
        }
        dict_free(d);
    }
    free(exact);
}

typedef void (*run_f)(const char *, size_t);
static void enumerate(const char *fmt, run_f run, const char *prefix, const char *const *tok, int ntok, int maxlen)
{
    int len, idx[8], i;
    cur_fmt = fmt;
    for (len = 0; len <= maxlen; len++) {
        for (i = 0; i < len; i++) idx[i] = 0;
        for (;;) {
            size_t o = (size_t)snprintf(cur, sizeof cur, "%s", prefix);
            for (i = 0; i < len && o + strlen(tok[idx[i]]) + 1 < sizeof cur; i++) o += (size_t)snprintf(cur + o, sizeof cur - o, "%s", tok[idx[i]]);
            cases++;
            if (len >= 2) distinct++;
            alarm(10);
            exit_armed = 1;
            if (setjmp(exit_jmp) == 0) run(cur, o);
            else { report("terminates the process (exit() reached) instead of reporting failure"); fails++; }
            exit_armed = 0;
            alarm(0);
            for (i = len - 1; i >= 0 && idx[i] == ntok - 1; i--) idx[i] = 0;
            if (i < 0) break;
            idx[i]++;
        }
    }
}

int main(int argc, char **argv)
{
    int thorough = argc > 1 && strcmp(argv[1], "thorough") == 0;
    static const char *const FSG[] = {
        "FSG_BEGIN g\n", "NUM_STATES 2\n", "NUM_STATES 4294967298\n", "NUM_STATES -1\n", "N 3\n", "START_STATE 0\n", "START_STATE 7\n", "FINAL_STATE 1\n", "F -1\n",
        "TRANSITION 0 1 0.5 a\n", "T 1 0 1.0\n", "TRANSITION 0 5 0.5 a\n", "TRANSITION 5 0 0.5 a\n", "TRANSITION 0 0 1.0\n", "TRANSITION 0 1 2.0 a\n",
        "TRANSITION 0 1 x a\n", "TRANSITION 0\n", "TRANSITION 0 1", "FSG_END\n", "# c\n", "\n" };
    static const char *const JSON[] = { "{", "}", "\"samprate\"", "samprate", ":", ",", "16000", "\"x\"", "[", "]", "\"", " nfft" };
    static const char *const JSGF[] = { "public ", "<s> ", "= ", "a ", "| ", "( ", ") ", "[ ", "] ", "* ", "+ ", ";\n", "/2/ ", "{t} ", "<NULL> ", "<y> ", "import <x.y>;\n", "\"", "/", "<" };
    static char LONG7[64], LONG15[128], LONG40[256], LONG200[1200];
    static const char *DICT[16];
    err_set_loglevel(ERR_FATAL + 1);
    lm = logmath_init(1.0001, 0, 1);
    {
        /* pronunciation lines with 1 .. 200 phones (the reader sizes its per-line buffer from earlier lines) */
        char path[600]; int k, n = 0;
        struct { char *buf; size_t sz; int nph; const char *w; } L[4] = { { LONG7, sizeof LONG7, 7, "seven" }, { LONG15, sizeof LONG15, 15, "fifteen" }, { LONG40, sizeof LONG40, 40, "forty" }, { LONG200, sizeof LONG200, 200, "twohundred" } };
        for (k = 0; k < 4; k++) { size_t o = (size_t)snprintf(L[k].buf, L[k].sz, "%s", L[k].w); int q; for (q = 0; q < L[k].nph; q++) o += (size_t)snprintf(L[k].buf + o, L[k].sz - o, " %s", q % 2 ? "AH" : "B"); snprintf(L[k].buf + o, L[k].sz - o, "\n"); }
        DICT[n++] = "a AH\n"; DICT[n++] = "b B AH\n"; DICT[n++] = "b(2) B AH B\n"; DICT[n++] = "## comment\n"; DICT[n++] = ";; comment\n"; DICT[n++] = "\n";
        DICT[n++] = LONG7; DICT[n++] = LONG15; DICT[n++] = LONG40; DICT[n++] = LONG200;
        DICT[n++] = "x XX\n"; DICT[n++] = "nophones\n"; DICT[n++] = "c K AH"; DICT[n++] = "d(3) D\n"; DICT[n++] = " \t e EH\n"; DICT[n++] = "a AH\n";
        snprintf(path, sizeof path, "%s/model/en-us/mdef", getenv("SSW_REPO") ? getenv("SSW_REPO") : "/repo");
        mdef = bin_mdef_read(NULL, path);
        if (!mdef) { printf("FAIL cannot read %s\n", path); return 1; }
    }
    signal(SIGABRT, on_signal); signal(SIGALRM, on_signal); signal(SIGSEGV, on_signal);
    __sanitizer_set_death_callback(on_asan_death);

    enumerate("fsg", run_fsg, "", FSG, (int)(sizeof FSG / sizeof FSG[0]), 3);
    /* the header lines in place, then every sequence of transition / end tokens */
    enumerate("fsg", run_fsg, "FSG_BEGIN g\nNUM_STATES 2\nSTART_STATE 0\nFINAL_STATE 1\n", FSG, (int)(sizeof FSG / sizeof FSG[0]), thorough ? 4 : 3);
    enumerate("fsg", run_fsg, "FSG_BEGIN g\n", FSG, (int)(sizeof FSG / sizeof FSG[0]), thorough ? 5 : 4);
    printf("SAMPLE fsg: every sequence of <= %d of 21 tokens after \"FSG_BEGIN g\", e.g. \"NUM_STATES 4294967298 / START_STATE 0 / FINAL_STATE 1 / TRANSITION 0 5 0.5 a\"\n", thorough ? 5 : 4);
    enumerate("dict", run_dict, "", DICT, 16, thorough ? 4 : 3);
    printf("SAMPLE dict: every sequence of <= %d of 16 dictionary lines (1 .. 200 phones, comments, alternates, unknown phones, no final newline) through dict_init_s3file with the en-us phone set\n", thorough ? 4 : 3);
    enumerate("json", run_json, "", JSON, (int)(sizeof JSON / sizeof JSON[0]), thorough ? 6 : 5);
    printf("SAMPLE json: every sequence of <= %d of 12 tokens, e.g. samprate:16000, nfft\n", thorough ? 6 : 5);
    enumerate("jsgf", run_jsgf, "#JSGF V1.0;\ngrammar g;\n", JSGF, (int)(sizeof JSGF / sizeof JSGF[0]), thorough ? 5 : 4);
    printf("SAMPLE jsgf: every sequence of <= %d of 20 tokens after the header, e.g. public <s> = ( a | <y> ;\n", thorough ? 5 : 4);
    printf("SAMPLE %ld of the texts were accepted and the returned object used and freed\n", accepted);
    printf("CASES %ld\nDISTINCT %ld\n", cases, distinct);
    return fails ? 1 : 0;
}
