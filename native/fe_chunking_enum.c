/* C06 native stand-in (bounded, exhaustive over the enumerated space): the constructive harness harness/C06_fe.c
 * (real fe_process + overflow helpers, DSP stage stubbed by a window recorder) is run natively for EVERY chunking of the
 * signal into <= 3 chunks and EVERY per-call output-limit pattern in {1,2,3}^calls (small geometry), and for every
 * 2-chunk split with constant limits on the shipped geometry 410/160.  A failed harness assertion is a FAIL line. */
#include <stdio.h>
#include <stdlib.h>
#include <string.h>
#include <setjmp.h>
static int e_chunk[3], e_lim[8], e_float;
static jmp_buf e_jmp; static const char *e_msg;
long long ssw_in_ll(const char *name, int idx, const char *field)
{
    (void)field;
    if (strcmp(name, "in_chunk") == 0) return e_chunk[idx];
    if (strcmp(name, "in_lim") == 0) return e_lim[idx];
    if (strcmp(name, "in_float") == 0) return e_float;
    return 0;
}
double ssw_in_double(const char *name, int idx, const char *field) { (void)name; (void)idx; (void)field; return 0; }
void ssw_replay_fail(const char *text) { e_msg = text; longjmp(e_jmp, 1); }
#define exit(c) longjmp(e_jmp, 2)      /* rejected assumption inside the harness: skip the case */
#include "../harness/C06_fe.c"
#undef exit
int main(void)
{
    long cases = 0, skipped = 0, fails = 0, known = 0;
    int nlim = 1; for (int i = 0; i < 6; i++) nlim *= 3;
    for (e_float = 0; e_float <= 1; e_float++)
        for (int c0 = 0; c0 <= NS; c0++) for (int c1 = 0; c0 + c1 <= NS; c1++) for (int c2 = 0; c0 + c1 + c2 <= NS; c2++)
            for (int lp = 0; lp < nlim; lp++) {
                int x = lp; for (int i = 0; i < 8; i++) { e_lim[i] = 1 + x % 3; x /= 3; }
                e_chunk[0] = c0; e_chunk[1] = c1; e_chunk[2] = c2;
                int j = setjmp(e_jmp);
                if (j == 0) { r_fe_chunking(); cases++; }
                else if (j == 2) skipped++;
                else if (strncmp(e_msg, "KNOWN-EDGE", 10) == 0) { if (known++ == 0) printf("KNOWN %s [first case: chunks %d,%d,%d limits %d%d%d encoding %s]\n", e_msg, c0, c1, c2, e_lim[0], e_lim[1], e_lim[2], e_float ? "float32" : "int16"); }
                else { if (fails++ < 5) printf("FAIL chunks %d,%d,%d limits %d%d%d%d%d%d encoding %s: %s\n", c0, c1, c2, e_lim[0], e_lim[1], e_lim[2], e_lim[3], e_lim[4], e_lim[5], e_float ? "float32" : "int16", e_msg); }
            }
    printf("SAMPLE geometry %d/%d, %d samples, chunks 3,4,4 limits 1,2,3,... -> frames written %d\n", FS, SH, NS, g_nfr);
    printf("SAMPLE known-edge cases (stream ends on a window boundary after an output-limited call): %ld\n", known);
    printf("CASES %ld\nDISTINCT %ld\n", cases + known, cases + known);
    (void)skipped;
    return fails ? 1 : 0;
}
