/* C14 native stand-in (bounded / exhaustive over the enumerated ranges): the doubles that the real format_seg /
 * format_align_iter hand to snprintf are start + frame / frame-rate and duration / frame-rate, for every
 * sf in [0,400), every duration in [1,60], frame rates {50,80,100,120,125,200}, offsets {0, 7.5}.
 * snprintf is intercepted; everything else is the real decoder.c. */
#include <stdarg.h>
#include <stdio.h>
static double g_b, g_d; static int g_n;
static int cap_snprintf(char *buf, size_t size, const char *fmt, ...)
{
    va_list ap; va_start(ap, fmt);
    g_b = va_arg(ap, double); g_d = va_arg(ap, double); va_end(ap); g_n++;
    if (buf && size) buf[0] = 0;
    (void)fmt; return 30;
}
#define snprintf cap_snprintf
#define logmath_exp cap_logmath_exp
#include "decoder.c"
#undef snprintf
#undef logmath_exp
double cap_logmath_exp(logmath_t *l, int p) { (void)l; (void)p; return 1.0; }
int main(int argc, char **argv)
{
    int thorough = argc > 1 && strcmp(argv[1], "thorough") == 0;
    int rates[] = { 50, 80, 100, 120, 125, 200 };
    double offs[] = { 0.0, 7.5 };
    long cases = 0, fails = 0;
    int maxsf = thorough ? 3000 : 400;
    for (int r = 0; r < 6; r++) for (int o = 0; o < 2; o++)
        for (int sf = 0; sf < maxsf; sf++) for (int dur = 1; dur <= 60; dur += (thorough ? 1 : 7)) {
            seg_iter_t seg; memset(&seg, 0, sizeof seg);
            seg.sf = sf; seg.ef = sf + dur - 1; seg.word = "w";
            char out[64];
            format_seg(out, 64, &seg, offs[o], rates[r], NULL);
            cases++;
            double eb = offs[o] + (double)sf / rates[r], ed = (double)dur / rates[r];
            if (g_b != eb || g_d != ed) { if (fails++ < 5) printf("FAIL frate %d offset %g sf %d dur %d: JSON says b=%.17g d=%.17g, iterators give %.17g %.17g\n", rates[r], offs[o], sf, dur, g_b, g_d, eb, ed); }
        }
    printf("SAMPLE frate=80 sf=37 dur=36 -> b=%.6f d=%.6f\n", 0.0 + 37.0 / 80, 36.0 / 80);
    printf("CASES %ld\nDISTINCT %ld\n", cases, cases);
    return fails ? 1 : 0;
}
