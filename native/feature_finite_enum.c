/* C18 native stand-in (bounded, exhaustive over the stated family; NOT a proof): finiteness of every cepstral and
 * dynamic-feature value and of the channel-normalisation state, through the real front end (fe_*), the real dynamic
 * feature computation (feat_s2mfc2feat_live) and the real CMN text export / import, for EVERY combination of
 *   signal   : digital silence, full-scale square waves (periods 2, 16, 200), isolated full-scale impulses, DC offsets
 *              (+max, -max, 1), white noise (full scale and 1 LSB), noise followed by zero padding, a full-scale ramp,
 *              silence followed by a full-scale step
 *   samples  : 16-bit integers / floats in [-1, 1]
 *   front end: transform dct | legacy | htk  x  logspec / smoothspec / cepstra  x  remove_noise yes|no  x
 *              remove_dc yes|no  x  lifter 0|22  (dither off: deterministic)
 *   features : (cepstral configurations) 1s_c_d_dd with cmn live | batch | none  x  varnorm yes|no
 * The transcendental floating-point pipeline (FFT, log, DCT over loops) is outside what CBMC contracts decided here.
 */
#include <stdio.h>
#include <stdlib.h>
#include <string.h>
#include <math.h>
#include <soundswallower/cmn.h>
#include <soundswallower/configuration.h>
#include <soundswallower/ckd_alloc.h>
#include <soundswallower/err.h>
#include <soundswallower/fe.h>
#include <soundswallower/feat.h>
#include <soundswallower/decoder.h>
#include <soundswallower/acmod.h>

#define NS 8000
static long cases, distinct, fails;
static char sample[3][300];
static int nsample;

static void failf(const char *what, const char *cfg, const char *sig, const char *typ)
{
    if (fails++ < 10) printf("FAIL %s: signal '%s' as %s samples, configuration %s\n", what, sig, typ, cfg);
}

static const char *SIGNAME[] = { "digital silence", "square wave period 2", "square wave period 16", "square wave period 200", "isolated impulses", "DC +max", "DC -max", "DC 1 LSB",
                                 "white noise full scale", "white noise 1 LSB", "noise then zero padding", "full-scale ramp", "silence then full-scale step" };
#define NSIG 13
static void make_signal(int k, short *s)
{
    unsigned lcg = 12345u; int i;
    for (i = 0; i < NS; i++) {
        int v = 0;
        lcg = lcg * 1103515245u + 12345u;
        switch (k) {
        case 0: v = 0; break;
        case 1: v = (i & 1) ? 32767 : -32768; break;
        case 2: v = (i / 8 & 1) ? 32767 : -32768; break;
        case 3: v = (i / 100 & 1) ? 32767 : -32768; break;
        case 4: v = (i % 1000 == 500) ? 32767 : 0; break;
        case 5: v = 32767; break;
        case 6: v = -32768; break;
        case 7: v = 1; break;
        case 8: v = (int)(lcg >> 16 & 0xffff) - 32768; break;
        case 9: v = (int)(lcg >> 16 & 1); break;
        case 10: v = i < NS / 2 ? (int)(lcg >> 16 & 0xffff) - 32768 : 0; break;
        case 11: v = (int)((long)i * 65535 / NS) - 32768; break;
        default: v = i < NS / 2 ? 0 : 32767; break;
        }
        s[i] = (short)v;
    }
}

static int all_finite(mfcc_t **a, int nfr, int dim)
{
    int i, j;
    for (i = 0; i < nfr; i++) for (j = 0; j < dim; j++) if (!isfinite((double)a[i][j])) return 0;
    return 1;
}

static void one(const char *cfgtext, int cepstral, int sig, int as_float)
{
    static short pcm[NS];
    static float fpcm[NS];
    config_t *cfg = config_parse_json(NULL, cfgtext);
    fe_t *fe;
    mfcc_t **cep;
    int nfr, n2, dim, maxfr = NS / 80 + 10, i;
    size_t ns = NS;
    const char *typ = as_float ? "float" : "int16";
    cases++;
    if (cfg == NULL) { failf("configuration of the family is not parsed", cfgtext, SIGNAME[sig], typ); return; }
    fe = fe_init(cfg);
    if (fe == NULL) { failf("front end of the family is not created", cfgtext, SIGNAME[sig], typ); config_free(cfg); return; }
    if (sig > 0) distinct++;
    make_signal(sig, pcm);
    for (i = 0; i < NS; i++) fpcm[i] = pcm[i] / 32768.0f;
    dim = fe_get_output_size(fe);
    cep = (mfcc_t **)ckd_calloc_2d(maxfr, dim, sizeof(mfcc_t));
    fe_start(fe);
    if (as_float) { float *p = fpcm; nfr = fe_process_float32(fe, &p, &ns, cep, maxfr); }
    else { short *p = pcm; nfr = fe_process_int16(fe, &p, &ns, cep, maxfr); }
    if (nfr < 0) { failf("front end reports an error", cfgtext, SIGNAME[sig], typ); nfr = 0; }
    n2 = fe_end(fe, cep + nfr, maxfr - nfr);
    if (n2 > 0) nfr += n2;
    if (nfr < 40) failf("fewer frames than expected", cfgtext, SIGNAME[sig], typ);
    if (!all_finite(cep, nfr, dim)) failf("non-finite cepstral / spectral value", cfgtext, SIGNAME[sig], typ);
    else if (cepstral) {
        feat_t *fcb = feat_init(cfg);
        if (fcb == NULL) failf("feature module of the family is not created", cfgtext, SIGNAME[sig], typ);
        else {
            mfcc_t ***feat = feat_array_alloc(fcb, nfr + 8);
            int ncep = nfr, nfeat, j, k, bad = 0;
            nfeat = feat_s2mfc2feat_live(fcb, cep, &ncep, 1, 1, feat);
            for (i = 0; i < nfeat; i++) for (j = 0; j < (int)feat_dimension1(fcb); j++) for (k = 0; k < (int)feat_dimension2(fcb, j); k++) if (!isfinite((double)feat[i][j][k])) bad = 1;
            if (nfeat <= 0) failf("no dynamic features produced", cfgtext, SIGNAME[sig], typ);
            if (bad) failf("non-finite dynamic feature value", cfgtext, SIGNAME[sig], typ);
            feat_update_stats(fcb);
            if (fcb->cmn_struct) {
                /* the normalisation state must be finite, exportable and re-importable to the same values */
                const char *r = cmn_update_repr(fcb->cmn_struct);
                char copy[2000], again[2000];
                mfcc_t before[64]; int nb = fcb->cmn_struct->veclen < 64 ? fcb->cmn_struct->veclen : 64;
                for (j = 0; j < nb; j++) { before[j] = fcb->cmn_struct->cmn_mean[j]; if (!isfinite((double)before[j])) bad = 2; }
                if (bad == 2) failf("non-finite channel-normalisation state", cfgtext, SIGNAME[sig], typ);
                else if (r == NULL || strlen(r) >= sizeof copy) failf("channel-normalisation state cannot be exported", cfgtext, SIGNAME[sig], typ);
                else {
                    strcpy(copy, r);
                    if (strstr(copy, "nan") || strstr(copy, "inf")) failf("exported channel-normalisation text is not finite", cfgtext, SIGNAME[sig], typ);
                    if (cmn_set_repr(fcb->cmn_struct, copy) != 0) failf("exported channel-normalisation text is not re-imported", cfgtext, SIGNAME[sig], typ);
                    else {
                        strcpy(again, cmn_update_repr(fcb->cmn_struct));
                        if (strcmp(copy, again) != 0) failf("channel-normalisation text changes on export -> import -> export", cfgtext, SIGNAME[sig], typ);
                        for (j = 0; j < nb; j++) if (fabs((double)(fcb->cmn_struct->cmn_mean[j] - before[j])) > 0.006 + 1e-4 * fabs((double)before[j])) { failf("re-imported channel-normalisation value differs beyond the printed precision", cfgtext, SIGNAME[sig], typ); break; }
                    }
                }
            }
            feat_array_free(feat);
            feat_free(fcb);
        }
    }
    if (nsample < 3 && sig == 4 + nsample * 3 && (cases % 7) == 0) snprintf(sample[nsample++], sizeof sample[0], "signal '%s' as %s samples, %s", SIGNAME[sig], typ, cfgtext);
    ckd_free_2d(cep);
    fe_free(fe);
    config_free(cfg);
}

/* Histories: the normalisation state is shared by consecutive utterances.  Every sequence of three utterances drawn from
 * {digital silence, speech} x {one full-utterance call (batch CMN), streamed in blocks (live CMN)} on one real decoder
 * (bundled en-us model, its own configuration): after every utterance the state and its exported text are finite. */
static void histories(void)
{
    const char *repo = getenv("SSW_REPO") ? getenv("SSW_REPO") : "/repo";
    char path[600]; static short speech[16000], silence[16000]; size_t n;
    FILE *f; config_t *c; decoder_t *d; int code;
    snprintf(path, sizeof path, "%s/tests/data/goforward.raw", repo);
    f = fopen(path, "rb");
    if (!f) { printf("FAIL cannot open %s\n", path); fails++; return; }
    if (fseek(f, 2 * 7000, SEEK_SET) != 0) { fclose(f); return; }
    n = fread(speech, 2, 16000, f); fclose(f);
    c = config_init(NULL);
    snprintf(path, sizeof path, "%s/model/en-us", repo);
    config_set_str(c, "hmm", path); config_set_str(c, "loglevel", "FATAL");
    d = decoder_init(c);
    if (!d) { printf("FAIL decoder_init\n"); fails++; return; }
    snprintf(path, sizeof path, "%s/tests/data/goforward.gram", repo);
    decoder_set_jsgf_file(d, path);
    for (code = 0; code < 64; code++) {
        int u, x = code; char hist[200] = ""; 
        decoder_set_cmn(d, "40,3,-1,0,0,0,0,0,0,0,0,0,0");
        for (u = 0; u < 3; u++, x /= 4) {
            int sil = x & 1, stream = x >> 1 & 1, q, bad = 0; short *a = sil ? silence : speech; size_t pos = 0;
            cmn_t *cm; const char *r;
            snprintf(hist + strlen(hist), sizeof hist - strlen(hist), "%s%s %s", u ? ", " : "", sil ? "silence" : "speech", stream ? "streamed" : "in one full-utterance call");
            decoder_start_utt(d);
            if (stream) while (pos < n) { size_t k = n - pos < 2048 ? n - pos : 2048; decoder_process_int16(d, a + pos, k, 0, 0); pos += k; }
            else decoder_process_int16(d, a, n, 0, 1);
            decoder_end_utt(d);
            cases++; if (u) distinct++;
            cm = d->acmod->fcb->cmn_struct;
            for (q = 0; cm && q < cm->veclen; q++) if (!isfinite((double)cm->cmn_mean[q])) bad = 1;
            r = decoder_get_cmn(d, 0);
            if (bad || (r && (strstr(r, "nan") || strstr(r, "inf")))) { if (fails++ < 10) printf("FAIL non-finite channel-normalisation state after the utterances: %s (exported text \"%.60s\")\n", hist, r ? r : ""); break; }
        }
    }
    decoder_free(d);
}

int main(int argc, char **argv)
{
    static const char *TR[] = { "dct", "legacy", "htk" };
    static const char *SPEC[] = { "", "\"logspec\": true, ", "\"smoothspec\": true, " };
    static const char *CMN[] = { "live", "batch", "none" };
    int t, sp, rn, dc, lf, sig, fl, c, vn;
    (void)argc; (void)argv;
    err_set_loglevel(ERR_FATAL);
    for (t = 0; t < 3; t++) for (sp = 0; sp < 3; sp++) for (rn = 0; rn < 2; rn++) for (dc = 0; dc < 2; dc++) for (lf = 0; lf < 2; lf++) {
        for (c = 0; c < (sp == 0 ? 3 : 1); c++) for (vn = 0; vn < (sp == 0 && c == 1 ? 2 : 1); vn++) {   /* varnorm exists in batch mode only (live mode: E_FATAL "not implemented") */
            char cfg[500];
            snprintf(cfg, sizeof cfg, "{\"transform\": \"%s\", %s\"remove_noise\": %s, \"remove_dc\": %s, \"lifter\": %d, \"dither\": false, \"feat\": \"1s_c_d_dd\", \"cmn\": \"%s\", \"varnorm\": %s}",
                     TR[t], SPEC[sp], rn ? "true" : "false", dc ? "true" : "false", lf ? 22 : 0, CMN[c], vn ? "true" : "false");
            for (sig = 0; sig < NSIG; sig++) for (fl = 0; fl < 2; fl++) one(cfg, sp == 0, sig, fl);
        }
    }
    histories();
    printf("SAMPLE history: silence in one full-utterance call, silence streamed, speech streamed -> state finite after each\n");
    {
        int i;
        for (i = 0; i < nsample; i++) printf("SAMPLE %s\n", sample[i]);
    }
    printf("CASES %ld\nDISTINCT %ld\n", cases, distinct);
    return fails ? 1 : 0;
}
