/* C10 native stand-in (bounded, exhaustive): the real dict_read_s3file (real tokenisers, real dict_add_word, real hash
 * table, real allocation wrappers) on EVERY text of <= LEN bytes over the alphabet below, each in an exact-size heap
 * block under AddressSanitizer.  exit() inside the library TUs is intercepted: reaching it is a FAIL ("terminates the
 * process on a text input").  A case that does not return within the step budget is a FAIL ("loops forever").
 * A CBMC run of the same harness (harness/C10_dict_read.c, tier probe) exhausted memory in propositional reduction. */
#include <stdio.h>
#include <stdlib.h>
#include <string.h>
#include <setjmp.h>
static jmp_buf e_jmp;
static void trap_exit(int c) { (void)c; longjmp(e_jmp, 1); }
#define exit(c) trap_exit(c)
#define bin_mdef_ciphone_id enum_ciphone_id
#define bin_mdef_ciphone_id_nocase enum_ciphone_id_nocase
#include "ckd_alloc.c"
#include "dict.c"
#undef exit
#undef bin_mdef_ciphone_id
#undef bin_mdef_ciphone_id_nocase
#include <soundswallower/s3file.h>
/* phone lookup: upper-case letters are phones */
int enum_ciphone_id(bin_mdef_t *m, const char *ciphone) { (void)m; return (ciphone[0] >= 'A' && ciphone[0] <= 'Z') ? ciphone[0] - 'A' : -1; }
int enum_ciphone_id_nocase(bin_mdef_t *m, const char *ciphone) { return enum_ciphone_id(m, ciphone); }
#ifndef LEN
#define LEN 5
#endif
static const char alpha[] = { 'A', 'B', 'a', ' ', '\n', '#', ';', '(', ')', '2' };
int main(int argc, char **argv)
{
    int maxlen = argc > 1 && strcmp(argv[1], "thorough") == 0 ? LEN + 1 : LEN;
    long cases = 0, fails = 0;
    int na = (int)sizeof alpha;
    err_set_loglevel(ERR_FATAL + 1);
    for (int len = 0; len <= maxlen; len++) {
        long total = 1; for (int i = 0; i < len; i++) total *= na;
        for (long code = 0; code < total; code++) {
            char *buf = malloc((size_t)len + 1);     /* exact size (+1 so that len 0 has a block): ASan sees over-reads of the text */
            long x = code; for (int i = 0; i < len; i++) { buf[i] = alpha[x % na]; x /= na; }
            char *exact = malloc(len ? (size_t)len : 1); memcpy(exact, buf, (size_t)len); free(buf);
            s3file_t *s = s3file_init(exact, (size_t)len);
            dict_t *d = ckd_calloc(1, sizeof(*d));
            d->refcnt = 1; d->max_words = 8; d->word = ckd_calloc(8, sizeof(dictword_t)); d->ht = hash_table_new(8, HASH_CASE_YES);
            d->mdef = (bin_mdef_t *)d;
            cases++;
            if (setjmp(e_jmp) == 0) {
                int32 r = dict_read_s3file(d, s);
                if (r != 0 && r != -1) { if (fails++ < 5) printf("FAIL dictionary text of %d bytes (code %ld): unexpected return value %d\n", len, code, r); }
            } else {
                if (fails++ < 5) { printf("FAIL dictionary text \""); for (int i = 0; i < len; i++) printf(exact[i] == '\n' ? "\\n" : "%c", exact[i]); printf("\" terminates the process (exit reached from dict_read_s3file)\n"); }
            }
            /* objects are dropped without freeing on the exit path; the normal path frees */
            s3file_free(s);
            free(exact);
        }
    }
    printf("SAMPLE alphabet {A,B,a,space,newline,#,;,(,),2}, all texts up to %d bytes\n", maxlen);
    printf("CASES %ld\nDISTINCT %ld\n", cases, cases);
    return fails ? 1 : 0;
}
