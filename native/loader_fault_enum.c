/* C17 native stand-in (bounded fault enumeration, NOT a proof): the real acoustic-model loaders on damaged copies of
 * the bundled model files.  Every trial runs in a forked child under AddressSanitizer, the damaged file sits in an
 * exact-size heap block (a read one byte outside the file's bytes is reported), exit() is trapped, abort()/signals and
 * hangs are classified.  The loaders above the s3file layer use floating point, megabyte tables and dozens of
 * allocation sites; no CBMC contract run over them finished (DESIGN.md A.2, C17), so this is the labelled bounded
 * stand-in for them.
 *
 * Part A (in memory, as the JavaScript binding loads models):
 *   tmat_init_s3file, gauden_init_s3file (means / variances), ptm_mgau_init_s3file then s2_semi_mgau_init_s3file
 *   (sendump), bin_mdef_read_s3file.
 *   damage = every truncation length (every length in the header region and the first/last bytes of the data, a stride
 *   in between), every byte of the header region replaced by 0x00 / 0xff / '\n' / '9', every 32-bit word of the count
 *   region replaced by 0, 1, v-1, v+1, 2v, -1, 0x7fffffff, 0x80000000, 0x40000000, 65536, and its byte-swap.
 * Part B (files on disk, memory mapped, through decoder_init as the C API loads models):
 *   one model file at a time replaced by a truncated / corrupted / missing one; a model that is accepted is USED (half a
 *   second of a real recording through the search, so that tables pointing outside the file are caught); afterwards,
 *   in the same process, the intact model must load.
 * Part C: a decoder that already holds the intact model is re-initialised (decoder_reinit) with the damaged file, then
 *   with the intact model again, used, and freed (dangling pointers / double frees across re-initialisation).
 *
 * Verdict per trial: REJECT (loader reported failure) is always fine; ACCEPT is a failure for a truncated file and is
 * only counted for a corrupted byte/word (a header byte nobody reads cannot be detected); process exit, sanitizer
 * report, signal or hang are failures.
 */
#include <stdio.h>
#include <stdlib.h>
#include <string.h>
#include <stdint.h>
#include <unistd.h>
#include <signal.h>
#include <sys/wait.h>
#include <sys/stat.h>
#include <sys/mman.h>


#include <soundswallower/acmod.h>
#include <soundswallower/bin_mdef.h>
#include <soundswallower/ckd_alloc.h>
#include <soundswallower/configuration.h>
#include <soundswallower/decoder.h>
#include <soundswallower/err.h>
#include <soundswallower/logmath.h>
#include <soundswallower/ms_gauden.h>
#include <soundswallower/ptm_mgau.h>
#include <soundswallower/s2_semi_mgau.h>
#include <soundswallower/s3file.h>
#include <soundswallower/tmat.h>

enum { R_REJECT = 40, R_ACCEPT = 41, R_EXIT = 42, R_ASAN = 43, R_INTACT_FAILS = 44, R_SETUP = 45 };

/* every exit() in the library is compiled as ssw_exit() (-Dexit=ssw_exit) */
void ssw_exit(int c) { (void)c; _exit(R_EXIT); }
/* the source file of the last E_FATAL, handed from the child to the parent through shared memory */
#define MAXJOBS 64
static char (*fatal_site)[64];
static int my_slot;
static void err_cb(void *u, err_lvl_t lvl, const char *msg)
{
    (void)u;
    if (lvl >= ERR_FATAL && fatal_site) {
        const char *q = strchr(msg, '"'), *e = q ? strchr(q + 1, '"') : NULL;
        if (q && e && (size_t)(e - q - 1) < sizeof fatal_site[0]) { memcpy(fatal_site[my_slot], q + 1, (size_t)(e - q - 1)); fatal_site[my_slot][e - q - 1] = 0; }
    }
    if (getenv("SSW_LOADER_VERBOSE")) fputs(msg, stderr);
}
const char *__asan_default_options(void) { return "exitcode=43:detect_leaks=0:allocator_may_return_null=1:abort_on_error=0:max_allocation_size_mb=4096"; }

typedef struct { unsigned char *p; size_t n; } blob_t;
enum { K_TMAT, K_MEANS, K_VARS, K_SENDUMP, K_MDEF, K_FEATPARAMS, NKIND };
static const char *kind_file[NKIND] = { "transition_matrices", "means", "variances", "sendump", "mdef", "feat_params.json" };
static const char *kind_cfg[NKIND] = { "tmat", "mean", "var", "sendump", "mdef", "featparams" };
enum { M_TRUNC, M_BYTE, M_WORD, M_MISSING };
typedef struct { int model, kind, mut, part; size_t off; uint32_t val; } trial_t;

#define NMODEL 2
static const char *model_name[NMODEL] = { "en-us", "fr-fr" };
static char model_dir[NMODEL][512];
static blob_t files[NMODEL][NKIND];
static decoder_t *dec[NMODEL];
static logmath_t *lm;
static char tmpdir[512];
static char tinydict[NMODEL][600];

static blob_t slurp(const char *path)
{
    blob_t b = { NULL, 0 };
    FILE *f = fopen(path, "rb");
    if (!f) { fprintf(stderr, "cannot open %s\n", path); _exit(R_SETUP); }
    fseek(f, 0, SEEK_END); b.n = (size_t)ftell(f); rewind(f);
    b.p = malloc(b.n ? b.n : 1);
    if (fread(b.p, 1, b.n, f) != b.n) _exit(R_SETUP);
    fclose(f);
    return b;
}

/* the damaged file, in an exact-size heap block */
static blob_t damage(const trial_t *t)
{
    const blob_t *src = &files[t->model][t->kind];
    blob_t d;
    d.n = t->mut == M_TRUNC ? t->off : src->n;
    d.p = malloc(d.n ? d.n : 1);
    memcpy(d.p, src->p, d.n);
    if (t->mut == M_BYTE) d.p[t->off] = (unsigned char)t->val;
    if (t->mut == M_WORD) memcpy(d.p + t->off, &t->val, 4);
    return d;
}

static void describe(const trial_t *t, char *out, size_t n)
{
    const char *part = t->part == 0 ? "in-memory loader" : t->part == 1 ? "decoder_init from files" : "decoder_reinit of a decoder holding the intact model";
    if (t->mut == M_TRUNC) snprintf(out, n, "%s/%s truncated to %zu of %zu bytes (%s)", model_name[t->model], kind_file[t->kind], t->off, files[t->model][t->kind].n, part);
    else if (t->mut == M_BYTE) snprintf(out, n, "%s/%s byte %zu set to 0x%02x (%s)", model_name[t->model], kind_file[t->kind], t->off, t->val, part);
    else if (t->mut == M_WORD) snprintf(out, n, "%s/%s 32-bit word at byte %zu set to 0x%08x (%s)", model_name[t->model], kind_file[t->kind], t->off, t->val, part);
    else snprintf(out, n, "%s/%s missing (%s)", model_name[t->model], kind_file[t->kind], part);
}

/* ---- part A: one loader on one damaged in-memory file; returns 1 = accepted, 0 = failure reported ---- */
static int load_in_memory(const trial_t *t, const blob_t *d)
{
    int m = t->model, ok = 0;
    s3file_t *s = s3file_init(d->p, d->n);
    switch (t->kind) {
    case K_TMAT: {
        tmat_t *tm = tmat_init_s3file(s, lm, 1e-4);
        ok = tm != NULL;
        tmat_free(tm);
        break;
    }
    case K_MEANS:
    case K_VARS: {
        int other = t->kind == K_MEANS ? K_VARS : K_MEANS;
        s3file_t *o = s3file_init(files[m][other].p, files[m][other].n);
        gauden_t *g = t->kind == K_MEANS ? gauden_init_s3file(s, o, 1e-4f, lm) : gauden_init_s3file(o, s, 1e-4f, lm);
        ok = g != NULL;
        gauden_free(g);
        s3file_free(o);
        break;
    }
    case K_SENDUMP: {
        /* the order acmod_load_am tries the computation modules in */
        s3file_t *mn = s3file_init(files[m][K_MEANS].p, files[m][K_MEANS].n);
        s3file_t *vr = s3file_init(files[m][K_VARS].p, files[m][K_VARS].n);
        mgau_t *g = ptm_mgau_init_s3file(dec[m]->acmod, mn, vr, NULL, s);
        s3file_free(mn); s3file_free(vr);
        if (g == NULL) {
            s3file_t *s2 = s3file_init(d->p, d->n);
            mn = s3file_init(files[m][K_MEANS].p, files[m][K_MEANS].n);
            vr = s3file_init(files[m][K_VARS].p, files[m][K_VARS].n);
            g = s2_semi_mgau_init_s3file(dec[m]->acmod, mn, vr, NULL, s2);
            s3file_free(mn); s3file_free(vr); s3file_free(s2);
        }
        ok = g != NULL;
        if (g) ps_mgau_free(g);
        break;
    }
    case K_MDEF: {
        bin_mdef_t *md = bin_mdef_read_s3file(s, 0);
        ok = md != NULL;
        bin_mdef_free(md);
        break;
    }
    default:
        _exit(R_SETUP);
    }
    s3file_free(s);
    return ok;
}

/* ---- part B: decoder_init with one model file replaced on disk ---- */
static decoder_t *init_model(int m, int kind, const char *path)
{
    config_t *c = config_init(NULL);
    config_set_str(c, "hmm", model_dir[m]);
    config_set_str(c, "dict", tinydict[m]);
    config_set_str(c, "loglevel", "FATAL");
    if (kind >= 0) config_set_str(c, kind_cfg[kind], path);
    return decoder_init(c);
}

static short audio[8000]; static size_t naudio;
/* a model that was accepted must also be usable: half a second of a real recording through the search */
static void use_decoder(decoder_t *x, int m)
{
    char path[700];
    if (naudio == 0 || m != 0) return;
    snprintf(path, sizeof path, "%s/tests/data/goforward.gram", getenv("SSW_REPO") ? getenv("SSW_REPO") : "/repo");
    if (decoder_set_jsgf_file(x, path) < 0) _exit(R_SETUP);
    if (decoder_start_utt(x) < 0) _exit(R_SETUP);
    decoder_process_int16(x, audio, naudio, 0, 0);
    decoder_end_utt(x);
    (void)decoder_hyp(x, NULL);
}

static config_t *model_config(int m, int kind, const char *path)
{
    config_t *c = config_init(NULL);
    config_set_str(c, "hmm", model_dir[m]);
    config_set_str(c, "dict", tinydict[m]);
    config_set_str(c, "loglevel", "FATAL");
    if (kind >= 0) config_set_str(c, kind_cfg[kind], path);
    return c;
}

/* ---- part C: a decoder that holds the intact model is re-initialised with a damaged one, then with the intact one ---- */
static int reinit_with_damage(const trial_t *t, const blob_t *d)
{
    char path[700];
    decoder_t *x = init_model(t->model, -1, NULL);
    int rc;
    if (x == NULL) _exit(R_SETUP);
    snprintf(path, sizeof path, "%s/damaged.%d", tmpdir, (int)getpid());
    if (t->mut != M_MISSING) {
        FILE *f = fopen(path, "wb");
        if (!f || fwrite(d->p, 1, d->n, f) != d->n) _exit(R_SETUP);
        fclose(f);
    }
    rc = decoder_reinit(x, model_config(t->model, t->kind, path));
    unlink(path);
    if (rc >= 0) use_decoder(x, t->model);
    if (decoder_reinit(x, model_config(t->model, -1, NULL)) < 0) _exit(R_INTACT_FAILS);
    use_decoder(x, t->model);
    decoder_free(x);
    return rc >= 0;
}

static int load_from_files(const trial_t *t, const blob_t *d)
{
    char path[700];
    decoder_t *x;
    int ok;
    snprintf(path, sizeof path, "%s/damaged.%d", tmpdir, (int)getpid());
    if (t->mut != M_MISSING) {
        FILE *f = fopen(path, "wb");
        if (!f || fwrite(d->p, 1, d->n, f) != d->n) _exit(R_SETUP);
        fclose(f);
    }
    x = init_model(t->model, t->kind, path);
    ok = x != NULL;
    if (x) use_decoder(x, t->model);
    decoder_free(x);
    unlink(path);
    /* "an intact model afterwards loads normally", in the same process */
    x = init_model(t->model, -1, NULL);
    if (x == NULL) _exit(R_INTACT_FAILS);
    decoder_free(x);
    return ok;
}

static void child(const trial_t *t)
{
    blob_t d = { NULL, 0 };
    int ok;
    alarm(120);
    if (t->mut != M_MISSING) d = damage(t);
    ok = t->part == 0 ? load_in_memory(t, &d) : t->part == 1 ? load_from_files(t, &d) : reinit_with_damage(t, &d);
    free(d.p);
    _exit(ok ? R_ACCEPT : R_REJECT);
}

/* ---- scheduler ---- */
static long cases, n_reject, n_accept_corrupt, fails;
static long per_kind[3][NKIND];
static struct { pid_t pid; trial_t t; int slot; } jobs[MAXJOBS];
static char slot_used[MAXJOBS];
#define MAXSITES 16
static char known_sites[MAXSITES][64];
static long known_count[MAXSITES];
static int n_known_sites;
static int njobs, maxjobs = 8;
#define MAXFAIL 4000
static char failtxt[MAXFAIL][400];

static void fail(const trial_t *t, const char *what)
{
    char d[300];
    describe(t, d, sizeof d);
    if (fails < MAXFAIL) snprintf(failtxt[fails], sizeof failtxt[0], "%s: %s [one: %d %d %d %d %zu %x]", d, what, t->model, t->kind, t->mut, t->part, t->off, t->val);
    fails++;
}

static void reap_one(void)
{
    int st, i;
    pid_t p = wait(&st);
    for (i = 0; i < njobs; i++) if (jobs[i].pid == p) break;
    if (i == njobs) return;
    trial_t t = jobs[i].t;
    int slot = jobs[i].slot;
    jobs[i] = jobs[--njobs];
    slot_used[slot] = 0;
    if (WIFSIGNALED(st)) {
        char w[80];
        snprintf(w, sizeof w, WTERMSIG(st) == SIGALRM ? "does not terminate (120 s)" : WTERMSIG(st) == SIGABRT ? "abort() / failed assert()" : "killed by signal %d", WTERMSIG(st));
        fail(&t, w);
        return;
    }
    switch (WEXITSTATUS(st)) {
    case R_REJECT: n_reject++; break;
    case R_ACCEPT:
        if (t.mut == M_TRUNC && t.kind != K_FEATPARAMS) fail(&t, "truncated file is accepted (no failure reported)");
        else if (t.mut == M_MISSING && t.kind != K_FEATPARAMS) fail(&t, "missing file is accepted (no failure reported)");
        else n_accept_corrupt++;
        break;
    case R_EXIT: {
        char w[160];
        const char *site = fatal_site[slot][0] ? fatal_site[slot] : "?";
        /* known finding (known_findings.txt): a damaged VALUE in feat_params.json reaches the E_FATAL calls of the
         * configuration-value validators; reported per source file, anything else is a failure */
        if (t.kind == K_FEATPARAMS && t.part == 1 && (!strcmp(site, "cmn.c") || !strcmp(site, "feat.c") || !strcmp(site, "fe_sigproc.c"))) {
            int k;
            for (k = 0; k < n_known_sites; k++) if (!strcmp(known_sites[k], site)) break;
            if (k == n_known_sites && n_known_sites < MAXSITES) strcpy(known_sites[n_known_sites++], site);
            if (k < MAXSITES) known_count[k]++;
            break;
        }
        snprintf(w, sizeof w, "terminates the process (fatal error exit in %s) instead of reporting failure", site);
        fail(&t, w);
        break;
    }
    case R_ASAN: fail(&t, "AddressSanitizer report (read outside the file's bytes / double free / use after free / null dereference)"); break;
    case R_INTACT_FAILS: fail(&t, "the intact model does not load afterwards"); break;
    default: { char w[60]; snprintf(w, sizeof w, "unexpected child status %d", WEXITSTATUS(st)); fail(&t, w); }
    }
}

static void submit(trial_t t)
{
    pid_t p;
    while (njobs >= maxjobs) reap_one();
    cases++;
    per_kind[t.part][t.kind]++;
    fflush(stdout);
    { int k; for (k = 0; k < MAXJOBS && slot_used[k]; k++) ; my_slot = k; }
    slot_used[my_slot] = 1;
    fatal_site[my_slot][0] = 0;
    p = fork();
    if (p < 0) { perror("fork"); _exit(3); }
    if (p == 0) {
        /* ASan's report goes to stderr; keep it out of the protocol stream but available to a human */
        if (!getenv("SSW_LOADER_VERBOSE")) { FILE *q = freopen("/dev/null", "w", stderr); (void)q; }
        child(&t);
    }
    jobs[njobs].pid = p; jobs[njobs].t = t; jobs[njobs].slot = my_slot; njobs++;
}
static void drain(void) { while (njobs) reap_one(); }

/* header region = the bytes up to and including the counts the loader sizes its allocations with */
static size_t header_end(int kind, const blob_t *b)
{
    if (kind == K_MDEF) { int32_t v; memcpy(&v, b->p + 8, 4); return 12 + (size_t)v; }
    if (kind == K_SENDUMP) {
        /* length-prefixed strings until a zero length */
        size_t o = 0;
        for (;;) { int32_t n; memcpy(&n, b->p + o, 4); o += 4; if (n == 0) break; o += (size_t)n; }
        return o;
    }
    if (kind == K_FEATPARAMS) return b->n;
    {
        const char *e = NULL; size_t i;
        for (i = 0; i + 7 <= b->n; i++) if (memcmp(b->p + i, "endhdr\n", 7) == 0) { e = (const char *)b->p + i; break; }
        if (!e) _exit(R_SETUP);
        return (size_t)(e - (const char *)b->p) + 7 + 4; /* + byte-order magic */
    }
}
/* offsets where one table of the file ends and the next begins: truncations are enumerated densely around each */
static int boundaries(int kind, const blob_t *b, size_t *out, int max)
{
    int n = 0;
    size_t he = header_end(kind, b);
    if (kind == K_MDEF) {
        int32_t cnt[10], i, ssz; size_t o = he + 40, t;
        memcpy(cnt, b->p + he, 40);                       /* n_ciphone n_phone n_emit_state n_ci_sen n_sen n_tmat n_sseq n_ctx n_cd_tree sil */
        for (i = 0; i < cnt[0]; i++) o += strlen((const char *)b->p + o) + 1;
        out[n++] = o;                                     /* end of the phone names */
        t = he + 40 + (((o - (he + 40)) + 3) & ~(size_t)3);
        out[n++] = t;                                     /* cd_tree */
        t += (size_t)cnt[8] * 8; out[n++] = t;            /* phone table */
        t += (size_t)cnt[1] * 12; out[n++] = t;           /* sseq_size word */
        memcpy(&ssz, b->p + t, 4);
        t += 4; out[n++] = t;                             /* senone sequences */
        t += (size_t)ssz * 2; out[n++] = t;               /* sseq_len (heterogeneous) or end of file */
    } else if (kind == K_SENDUMP) {
        out[n++] = he; out[n++] = he + 8;                 /* rows / columns words, start of the weights */
    } else if (kind != K_FEATPARAMS) {
        out[n++] = he;
        if (b->n >= 4) out[n++] = b->n - 4;               /* checksum word */
    }
    (void)max;
    return n;
}
static size_t count_words(int kind) { return kind == K_MDEF ? 10 : kind == K_SENDUMP ? 4 : 8; }

static void enumerate(int part, int m, int kind, size_t stride, int dense)
{
    const blob_t *b = &files[m][kind];
    size_t he = header_end(kind, b), ce = he + 4 * count_words(kind), i, k;
    trial_t t; memset(&t, 0, sizeof t);
    t.model = m; t.kind = kind; t.part = part;
    if (ce > b->n) ce = b->n;
    /* truncations */
    t.mut = M_TRUNC;
    for (i = 0; i < b->n; ) {
        t.off = i; submit(t);
        if (i < ce + 64 || i + 64 >= b->n) i += dense ? 1 : (i < ce + 64 ? 3 : 7);
        else { i += stride; if (i + 64 > b->n) i = b->n - 64; }
    }
    {
        size_t bd[16]; int nb = boundaries(kind, b, bd, 16), q; long d;
        for (q = 0; q < nb; q++)
            for (d = -9; d <= 9; d++) {
                long o = (long)bd[q] + d;
                if (o >= 0 && (size_t)o < b->n) { t.off = (size_t)o; submit(t); }
            }
    }
    /* header bytes */
    t.mut = M_BYTE;
    {
        static const unsigned char v[] = { 0x00, 0xff, '\n', '9' };
        for (i = 0; i < he && i < b->n; i += dense ? 1 : 5)
            for (k = 0; k < sizeof v; k++) if (b->p[i] != v[k]) { t.off = i; t.val = v[k]; submit(t); }
    }
    /* count words (mdef: also the format-descriptor length word) */
    if (kind != K_FEATPARAMS) {
        t.mut = M_WORD;
        for (i = (kind == K_MDEF ? 8 : he); i + 4 <= ce; i += 4) {
            uint32_t v, vals[11]; size_t nv = 0;
            if (kind == K_MDEF && i == 12) i = he;
            if (i + 4 > ce) break;
            memcpy(&v, b->p + i, 4);
            vals[nv++] = 0; vals[nv++] = 1; vals[nv++] = v - 1; vals[nv++] = v + 1; vals[nv++] = 2 * v; vals[nv++] = 0xffffffffu;
            vals[nv++] = 0x7fffffffu; vals[nv++] = 0x80000000u; vals[nv++] = 0x40000000u; vals[nv++] = 65536;
            vals[nv++] = __builtin_bswap32(v);
            for (k = 0; k < nv; k++) if (vals[k] != v) { t.off = i; t.val = vals[k]; submit(t); }
        }
        if (kind == K_SENDUMP) {
            /* the length words of the title / header strings too */
            size_t o = 0;
            for (;;) {
                int32_t n; static const uint32_t lv[] = { 0, 0xffffffffu, 0x80000000u, 0x7fffffffu, 1000, 0xfffffff0u };
                memcpy(&n, b->p + o, 4);
                for (k = 0; k < sizeof lv / sizeof lv[0]; k++) if (lv[k] != (uint32_t)n) { t.off = o; t.val = lv[k]; submit(t); }
                { t.off = o; t.val = (uint32_t)n + 1; submit(t); t.val = (uint32_t)n - 1; submit(t); }
                o += 4; if (n == 0) break; o += (size_t)n;
            }
        }
    }
    if (part == 1) { t.mut = M_MISSING; t.off = 0; submit(t); }
    if (part == 1) {
        /* part C on a few representative damages of this file */
        t.part = 2;
        t.mut = M_MISSING; t.off = 0; submit(t);
        t.mut = M_TRUNC;
        t.off = he / 2; submit(t);
        t.off = ce < b->n ? ce : b->n / 2; submit(t);
        t.off = b->n / 2; submit(t);
        t.off = b->n - 1; submit(t);
    }
}

int main(int argc, char **argv)
{
    int thorough = argc > 1 && strcmp(argv[1], "thorough") == 0;
    const char *repo = getenv("SSW_REPO") ? getenv("SSW_REPO") : "/repo";
    const char *jobs_env = getenv("SSW_JOBS");
    int m, k;
    long ncpu = sysconf(_SC_NPROCESSORS_ONLN);
    maxjobs = jobs_env ? atoi(jobs_env) : (int)(ncpu > 2 ? ncpu - 1 : 1);
    if (maxjobs < 1) maxjobs = 1;
    if (maxjobs > MAXJOBS) maxjobs = MAXJOBS;

    fatal_site = mmap(NULL, MAXJOBS * sizeof fatal_site[0], PROT_READ | PROT_WRITE, MAP_SHARED | MAP_ANONYMOUS, -1, 0);
    if (fatal_site == MAP_FAILED) { perror("mmap"); return 3; }
    err_set_loglevel(ERR_FATAL);
    err_set_callback(err_cb, NULL);
    lm = logmath_init(1.0001, 0, 1);
    snprintf(tmpdir, sizeof tmpdir, "%s/ssw_loader_XXXXXX", getenv("TMPDIR") ? getenv("TMPDIR") : "/tmp");
    if (!mkdtemp(tmpdir)) { perror("mkdtemp"); return 3; }
    for (m = 0; m < NMODEL; m++) {
        char path[700]; FILE *in, *out; int lines = 0; char line[1000];
        snprintf(model_dir[m], sizeof model_dir[m], "%s/model/%s", repo, model_name[m]);
        for (k = 0; k < NKIND; k++) { snprintf(path, sizeof path, "%s/%s", model_dir[m], kind_file[k]); files[m][k] = slurp(path); }
        /* a 40-word dictionary (the first lines of the model's own) keeps decoder_init fast */
        snprintf(path, sizeof path, "%s/dict.txt", model_dir[m]);
        snprintf(tinydict[m], sizeof tinydict[m], "%s/dict%d.txt", tmpdir, m);
        in = fopen(path, "r"); out = fopen(tinydict[m], "w");
        if (!in || !out) return 3;
        while (fgets(line, sizeof line, in)) {
            /* the first 40 entries, and the words of tests/data/goforward.gram (use_decoder) */
            static const char *W[] = { "go", "forward", "backward", "ten", "meters", "meter", "one", "two", "three", "four", "five", "six", "seven", "eight", "nine", NULL };
            size_t wl = strcspn(line, " \t("); int q, keep = lines++ < 40;
            for (q = 0; W[q] && !keep; q++) if (strlen(W[q]) == wl && strncmp(W[q], line, wl) == 0) keep = 1;
            if (keep) fputs(line, out);
        }
        fclose(in); fclose(out);
        /* the intact model must load: it provides the acmod for the sendump loaders and is the non-vacuity check */
        dec[m] = init_model(m, -1, NULL);
        if (dec[m] == NULL) { printf("FAIL intact model %s does not load\n", model_name[m]); return 1; }
    }
    {
        char path[700]; FILE *f;
        snprintf(path, sizeof path, "%s/tests/data/goforward.raw", repo);
        f = fopen(path, "rb");
        if (f) { if (fseek(f, 2 * 7000, SEEK_SET) == 0) naudio = fread(audio, 2, 8000, f); fclose(f); }
    }
    /* non-vacuity of part A: every intact file is accepted by its loader */
    for (m = 0; m < NMODEL; m++) for (k = 0; k <= K_MDEF; k++) {
        trial_t t; memset(&t, 0, sizeof t); t.model = m; t.kind = k; t.mut = M_TRUNC; t.off = files[m][k].n;
        pid_t p = fork();
        if (p == 0) child(&t);
        int st; waitpid(p, &st, 0);
        if (!WIFEXITED(st) || WEXITSTATUS(st) != R_ACCEPT) { printf("FAIL intact %s/%s is not accepted by its in-memory loader (status %d)\n", model_name[m], kind_file[k], st); return 1; }
    }

    if (getenv("SSW_LOADER_ONE")) {
        /* one trial in the foreground, sanitizer report visible: "model kind mutation part offset value" */
        trial_t t; unsigned long off; unsigned val;
        memset(&t, 0, sizeof t);
        if (sscanf(getenv("SSW_LOADER_ONE"), "%d %d %d %d %lu %x", &t.model, &t.kind, &t.mut, &t.part, &off, &val) != 6) return 3;
        t.off = off; t.val = val;
        child(&t);
    }
    for (m = 0; m < NMODEL; m++) {
        /* part A */
        enumerate(0, m, K_TMAT, 1, 1);
        enumerate(0, m, K_MEANS, thorough ? 1021 : 40009, thorough);
        enumerate(0, m, K_VARS, thorough ? 1021 : 40009, thorough);
        enumerate(0, m, K_SENDUMP, thorough ? 2039 : 80021, thorough);
        enumerate(0, m, K_MDEF, thorough ? 4093 : 160001, thorough);
        /* part B */
        enumerate(1, m, K_TMAT, thorough ? 7 : 61, 0);
        enumerate(1, m, K_MEANS, thorough ? 10007 : 200003, 0);
        enumerate(1, m, K_VARS, thorough ? 10007 : 200003, 0);
        enumerate(1, m, K_SENDUMP, thorough ? 20011 : 400009, 0);
        enumerate(1, m, K_MDEF, thorough ? 40009 : 800011, 0);
        enumerate(1, m, K_FEATPARAMS, 1, thorough);
    }
    drain();
    for (m = 0; m < NMODEL; m++) unlink(tinydict[m]);
    rmdir(tmpdir);

    {
        long i;
        for (i = 0; i < fails && i < MAXFAIL; i++) printf("FAIL %s\n", failtxt[i]);
        for (i = 0; i < n_known_sites; i++)
            printf("KNOWN damaged value in the feature parameter file terminates the process: fatal error exit in %s (%ld of the trials)\n", known_sites[i], known_count[i]);
    }
    printf("SAMPLE en-us/transition_matrices truncated to every length 0..%zu (in memory, exact-size heap block, ASan)\n", files[0][K_TMAT].n - 1);
    printf("SAMPLE en-us/mdef 32-bit count word n_ciphone set to 0x7fffffff (in memory)\n");
    printf("SAMPLE fr-fr/sendump missing, then the intact model loaded in the same process (decoder_init from files)\n");
    for (k = 0; k < NKIND; k++) printf("SAMPLE trials on %s: %ld in memory, %ld through decoder_init, %ld through decoder_reinit of a live decoder\n", kind_file[k], per_kind[0][k], per_kind[1][k], per_kind[2][k]);
    printf("SAMPLE outcome: %ld rejected, %ld corrupted-but-accepted (counted, not failures), %ld failures\n", n_reject, n_accept_corrupt, fails);
    printf("CASES %ld\nDISTINCT %ld\n", cases, cases);
    return fails ? 1 : 0;
}
