/* C02 native stand-in (bounded enumeration; NOT a proof): the search network uses "the acoustic model's left/right-context
 * triphones" -- every node of the lextree built for a grammar carries the senone sequence the MODEL DEFINITION gives for
 * its phone in its context, computed here independently of dict2pid's tables with bin_mdef_phone_id_nearest():
 *   word-initial node : for EVERY left context it serves (ctxt bits)   ssid(first,  lc,          second, BEGIN)
 *   word-internal node:                                                ssid(p,      p-1,         p+1,    INTERNAL)
 *   word-final node   : for EVERY right context it serves (ctxt bits)  ssid(last,   second-last, rc,     END)
 *   one-phone word    : for EVERY left context it serves               ssid(phone,  lc,          SIL,    SINGLE)
 * and, conversely, every (word arc, left context of its source state) has a root serving it and every (word arc, right
 * context of its destination state) a leaf serving it.
 * Grammars: a listed family of chains / unions over tests/data/turtle.dic words chosen so that states are entered by
 * words with different last phones and left by words sharing their first phone(s), plus pseudo-random grammars
 * (quick 40, thorough 400) of 3..5 states and 4..9 word arcs; one scenario with a tiny dictionary and a word added at
 * run time (decoder_add_word).  Bundled en-us model. */
#include <stdio.h>
#include <stdlib.h>
#include <string.h>
#include <soundswallower/decoder.h>
#include <soundswallower/fsg_search.h>
#include <soundswallower/fsg_lextree.h>
#include <soundswallower/dict2pid.h>
#include <soundswallower/bin_mdef.h>
#include <soundswallower/err.h>

static long cases, distinct, fails;
static const char *repo;
static bin_mdef_t *mdef;
static dict_t *dict;
static fsg_model_t *fsg;
static char gdesc[600];

static void fail(const char *what, const char *word, int a, int b, int c, int want, int got)
{
    if (fails++ < 12)
        printf("FAIL %s: word %s phone %s left %s right %s: model definition ssid %d, lextree node ssid %d; grammar %s\n", what, word,
               a >= 0 ? bin_mdef_ciphone_str(mdef, a) : "-", b >= 0 ? bin_mdef_ciphone_str(mdef, b) : "-", c >= 0 ? bin_mdef_ciphone_str(mdef, c) : "-", want, got, gdesc);
}
static int want_ssid(int b, int l, int r, word_posn_t pos)
{
    return bin_mdef_pid2ssid(mdef, bin_mdef_phone_id_nearest(mdef, b, l, r, pos));
}
static int has(fsg_pnode_ctxt_t *c, int ph) { return (c->bv[ph / 32] >> (ph % 32)) & 1u; }

/* walk every root -> leaf path below node n (depth p) for the word of each leaf */
static fsg_pnode_t *path[64];
static int cur_state;
static void walk(fsg_pnode_t *n, int p, fsg_link_t *only, int *found_rc /* [n_ci] or NULL */, int *nleaf)
{
    int nci = bin_mdef_n_ciphone(mdef), q, x;
    path[p] = n;
    if (p > 60) { fails++; printf("FAIL lextree deeper than 60 phones; grammar %s\n", gdesc); return; }
    if (!n->leaf) {
        fsg_pnode_t *c;
        for (c = n->next.succ; c; c = c->sibling) walk(c, p + 1, only, found_rc, nleaf);
        return;
    }
    {
        fsg_link_t *fl = n->next.fsglink;
        const char *w = fsg_model_word_str(fsg, fl->wid);
        int wid = dict_wordid(dict, w), len;
        if (only && fl != only) return;
        if (nleaf) (*nleaf)++;
        /* structure ASSUMED by the word-arc contracts of C01 (harness/C01_wordarcs.c): a leaf's grammar arc leaves the
         * state whose lextree holds the leaf */
        if (!only) { cases++; if (fl->from_state != cur_state) { fails++; if (fails < 12) printf("FAIL lextree of state %d holds a leaf whose grammar arc leaves state %d; grammar %s\n", cur_state, fl->from_state, gdesc); } }
        if (wid < 0) { fails++; printf("FAIL lextree leaf for a word that is not in the dictionary: %s\n", w); return; }
        len = dict_pronlen(dict, wid);
        if (only) { /* coverage query: collect the right contexts this arc's leaves serve */
            if (found_rc) for (x = 0; x < nci; x++) if (has(&n->ctxt, x)) found_rc[x] = 1;
            return;
        }
        if (dict_filler_word(dict, wid)) return;   /* fillers: context independent by design */
        if (len != p + 1 || n->ppos != p) { fail("leaf depth differs from the pronunciation length", w, -1, -1, -1, len, p + 1); return; }
        if (len == 1) {
            for (x = 0; x < nci; x++) if (has(&n->ctxt, x)) {
                int want = want_ssid(dict_pron(dict, wid, 0), x, mdef->sil, WORD_POSN_SINGLE);
                cases++;
                if (want != hmm_nonmpx_ssid(&n->hmm)) fail("one-phone word", w, dict_pron(dict, wid, 0), x, mdef->sil, want, hmm_nonmpx_ssid(&n->hmm));
            }
            return;
        }
        for (q = 0; q < len; q++) {
            fsg_pnode_t *m = path[q];
            int ph = dict_pron(dict, wid, q), got = hmm_nonmpx_ssid(&m->hmm);
            if (m->ci_ext != ph || m->ppos != q) { fail("node phone / position differs from the pronunciation", w, ph, -1, -1, q, m->ppos); continue; }
            if (q == 0) {
                for (x = 0; x < nci; x++) if (has(&m->ctxt, x)) {
                    int want = want_ssid(ph, x, dict_pron(dict, wid, 1), WORD_POSN_BEGIN);
                    cases++;
                    if (want != got) fail("word-initial phone scored with the model of another left context", w, ph, x, dict_pron(dict, wid, 1), want, got);
                }
            } else if (q < len - 1) {
                int want = want_ssid(ph, dict_pron(dict, wid, q - 1), dict_pron(dict, wid, q + 1), WORD_POSN_INTERNAL);
                cases++;
                if (want != got) fail("word-internal phone", w, ph, dict_pron(dict, wid, q - 1), dict_pron(dict, wid, q + 1), want, got);
            } else {
                for (x = 0; x < nci; x++) if (has(&m->ctxt, x)) {
                    int want = want_ssid(ph, dict_pron(dict, wid, q - 1), x, WORD_POSN_END);
                    cases++;
                    if (want != got) fail("word-final phone scored with the model of another right context", w, ph, dict_pron(dict, wid, q - 1), x, want, got);
                }
            }
        }
    }
}

static void check_search(decoder_t *d)
{
    fsg_search_t *fs = (fsg_search_t *)d->search;
    fsg_lextree_t *lt = fs->lextree;
    int s, nci, i, x;
    fsg_pnode_t *root;
    fsg = fs->fsg; dict = d->dict; mdef = d->acmod->mdef;
    nci = bin_mdef_n_ciphone(mdef);
    for (s = 0; s < fsg_model_n_state(fsg); s++) {
        fsg_arciter_t *it;
        cur_state = s;
        for (root = fsg_lextree_root(lt, s); root; root = root->sibling) walk(root, 0, NULL, NULL, NULL);
        /* coverage: every word arc x left context of s x right context of its destination is served */
        for (it = fsg_model_arcs(fsg, s); it; it = fsg_arciter_next(it)) {
            fsg_link_t *fl = fsg_arciter_get(it);
            int wid, len;
            if (fl->wid < 0) continue;
            wid = dict_wordid(dict, fsg_model_word_str(fsg, fl->wid));
            if (wid < 0 || dict_filler_word(dict, wid)) continue;
            len = dict_pronlen(dict, wid);
            for (i = 0; lt->lc[s][i] >= 0; i++) {
                int lc = lt->lc[s][i], served = 0;
                for (root = fsg_lextree_root(lt, s); root; root = root->sibling) {
                    int nleaf = 0;
                    if (root->ci_ext != dict_pron(dict, wid, 0) || !has(&root->ctxt, lc)) continue;
                    walk(root, 0, fl, NULL, &nleaf);
                    if (nleaf) served++;
                }
                cases++;
                if (served != 1) { fails++; if (fails < 12) printf("FAIL word arc %s out of state %d: left context %s is served by %d roots (expected exactly 1); grammar %s\n",
                                                    fsg_model_word_str(fsg, fl->wid), s, bin_mdef_ciphone_str(mdef, lc), served, gdesc); }
            }
            if (len > 1) {
                int *found = calloc(nci, sizeof(int));
                for (root = fsg_lextree_root(lt, s); root; root = root->sibling) walk(root, 0, fl, found, NULL);
                for (i = 0; lt->rc[fl->to_state][i] >= 0; i++) {
                    x = lt->rc[fl->to_state][i];
                    cases++;
                    if (!found[x]) { fails++; if (fails < 12) printf("FAIL word arc %s into state %d: right context %s is served by no leaf; grammar %s\n",
                                                       fsg_model_word_str(fsg, fl->wid), fl->to_state, bin_mdef_ciphone_str(mdef, x), gdesc); }
                }
                free(found);
            }
        }
    }
    distinct++;
}

static decoder_t *mkdec(const char *dictpath)
{
    config_t *c = config_init(NULL);
    char p[600];
    snprintf(p, sizeof p, "%s/model/en-us", repo);
    config_set_str(c, "hmm", p);
    config_set_str(c, "dict", dictpath);
    config_set_str(c, "loglevel", "FATAL");
    return decoder_init(c);
}
/* arcs: "from to word" triples */
static int set_grammar(decoder_t *d, int nstate, int narc, int (*ft)[2], const char **words)
{
    fsg_model_t *g = fsg_model_init("g", decoder_logmath(d), 1.0f, nstate);
    int i; size_t o = 0;
    g->start_state = 0; g->final_state = nstate - 1;
    gdesc[0] = 0;
    for (i = 0; i < narc; i++) {
        fsg_model_trans_add(g, ft[i][0], ft[i][1], 0, fsg_model_word_add(g, words[i]));
        o += snprintf(gdesc + o, sizeof gdesc - o, "%d-%s->%d ", ft[i][0], words[i], ft[i][1]);
        if (o > sizeof gdesc - 60) break;
    }
    return decoder_set_fsg(d, g);
}

int main(int argc, char **argv)
{
    int thorough = argc > 1 && strcmp(argv[1], "thorough") == 0;
    char path[600], line[400];
    static char wl[200][64];
    const char *w[16]; int ft[16][2];
    int nw = 0, k, i;
    unsigned lcg = 12345u;
    decoder_t *d;
    FILE *f;
    repo = getenv("SSW_REPO") ? getenv("SSW_REPO") : "/repo";
    err_set_loglevel(ERR_FATAL);
    snprintf(path, sizeof path, "%s/tests/data/turtle.dic", repo);
    f = fopen(path, "r");
    if (!f) { printf("FAIL cannot open %s\n", path); return 1; }
    while (fgets(line, sizeof line, f) && nw < 200) {
        char *sp = strpbrk(line, " \t");
        if (!sp || line[0] == '<' || strchr(line, '(')) continue;
        *sp = 0; strncpy(wl[nw++], line, 63);
    }
    fclose(f);
    d = mkdec(path);
    if (!d) { printf("FAIL decoder_init\n"); return 1; }
    /* listed family */
    {
        static const char *chain[] = { "go", "forward", "ten", "meters" };
        int cft[4][2] = { { 0, 1 }, { 1, 2 }, { 2, 3 }, { 3, 4 } };
        if (set_grammar(d, 5, 4, cft, chain) == 0) check_search(d); else { printf("FAIL chain grammar refused\n"); fails++; }
    }
    {
        /* state 1 entered by words ending in different phones, left by words sharing first phones */
        static const char *u[] = { "go", "turn", "exit", "forward", "four", "ten", "then", "meters", "meter", "a" };
        int uft[10][2] = { { 0, 1 }, { 0, 1 }, { 0, 1 }, { 1, 2 }, { 1, 2 }, { 1, 2 }, { 1, 2 }, { 2, 3 }, { 2, 3 }, { 2, 1 } };
        int ok = 1;
        for (i = 0; i < 10; i++) if (dict_wordid(d->dict, u[i]) < 0) ok = 0;
        if (ok) { if (set_grammar(d, 4, 10, uft, u) == 0) check_search(d); else { printf("FAIL union grammar refused\n"); fails++; } }
        else printf("SAMPLE (union grammar skipped: words missing from turtle.dic)\n");
    }
    /* pseudo-random grammars */
    for (k = 0; k < (thorough ? 400 : 40); k++) {
        int ns, na;
        lcg = lcg * 1103515245u + 12345u; ns = 3 + (lcg >> 16) % 3;
        lcg = lcg * 1103515245u + 12345u; na = 4 + (lcg >> 16) % 6;
        for (i = 0; i < na; i++) {
            lcg = lcg * 1103515245u + 12345u; ft[i][0] = (i < ns - 1) ? i : (int)((lcg >> 16) % (ns - 1));
            lcg = lcg * 1103515245u + 12345u; ft[i][1] = (i < ns - 1) ? i + 1 : (int)((lcg >> 16) % ns);
            lcg = lcg * 1103515245u + 12345u; w[i] = wl[(lcg >> 16) % nw];
        }
        if (set_grammar(d, ns, na, ft, w) == 0) check_search(d);
        if (k < 2) printf("SAMPLE %s\n", gdesc);
    }
    decoder_free(d);
    /* tiny dictionary + run-time added word */
    {
        const char *tmp = getenv("TMPDIR") ? getenv("TMPDIR") : "/tmp";
        static const char *chain[] = { "go", "forward", "ten", "meters" };
        int cft[4][2] = { { 0, 1 }, { 1, 2 }, { 2, 3 }, { 3, 4 } };
        snprintf(path, sizeof path, "%s/tiny.dic", tmp);
        f = fopen(path, "w");
        fprintf(f, "go G OW\nforward F AO R W ER D\nten T EH N\n");
        fclose(f);
        d = mkdec(path);
        if (!d) { printf("FAIL decoder_init (tiny dictionary)\n"); return 1; }
        if (decoder_add_word(d, "meters", "M IY T ER Z", 1) < 0) { printf("FAIL decoder_add_word\n"); fails++; }
        else if (set_grammar(d, 5, 4, cft, chain) == 0) { strcat(gdesc, "(meters added at run time to a 3-word dictionary)"); check_search(d); }
        else { printf("FAIL grammar with the added word refused\n"); fails++; }
        decoder_free(d);
    }
    printf("CASES %ld\nDISTINCT %ld\n", cases, distinct);
    return fails ? 1 : 0;
}
