/* C07 native stand-in (bounded differential run; NOT a proof): the real decoder (bundled en-us model, goforward
 * grammar, tests/data/goforward.raw, 2.8 s) decodes the same utterance
 *     - in one call,
 *     - in pieces: fixed piece sizes (160 ... 30000 samples), and a first piece of exactly k analysis frames for every
 *       k in 100..150 (the feature / cepstrum ring sizes are 128) and +-1 sample around it, the rest in one call,
 *     - searching as data arrives / buffering everything (no_search) and searching at the end,
 *     - with and without asking for a partial hypothesis after every piece,
 *     - as int16 and as float32 samples,
 *     - on a fresh decoder and after a "history": an earlier utterance processed with full_utt = TRUE (which enlarges
 *       the cepstrum buffer), so that more than 250 frames reach the live feature buffer in one later call,
 *     - cut to a length that ends exactly on a window boundary (410 + 160 k samples), in pieces of 40 / 160 / 410 / 570 /
 *       1000 samples and "all but 80 / 410 / 1 samples, then the rest",
 * with the channel-normalisation state reset to the same text before every utterance.  The signature of a run is the
 * hypothesis, its score, every segment (word, start, end frame), the number of frames searched and the phone alignment;
 * all signatures must be identical.  AddressSanitizer watches the buffers.
 */
#include <stdio.h>
#include <stdlib.h>
#include <string.h>
#include <unistd.h>
#include <soundswallower/alignment.h>
#include <soundswallower/configuration.h>
#include <soundswallower/decoder.h>
#include <soundswallower/err.h>

static short *pcm; static float *fpcm; static size_t nsamp;
static long cases, distinct, fails;
static const char *CMN0 = "40,3,-1,0,0,0,0,0,0,0,0,0,0";
static char ref[20000];

static void signature(decoder_t *d, char *out, size_t n)
{
    int32 score = 0; const char *hyp = decoder_hyp(d, &score);
    size_t o = (size_t)snprintf(out, n, "hyp=%s score=%d frames=%d |", hyp ? hyp : "(null)", score, decoder_n_frames(d));
    seg_iter_t *s;
    alignment_t *al;
    for (s = decoder_seg_iter(d); s; s = seg_iter_next(s)) {
        int sf, ef; int32 ascr, lscr; seg_iter_frames(s, &sf, &ef);
        seg_iter_prob(s, &ascr, &lscr);
        if (o < n) o += (size_t)snprintf(out + o, n - o, " %s[%d,%d,ascr=%d]", seg_iter_word(s), sf, ef, ascr);
    }
    al = decoder_alignment(d);
    if (al) {
        alignment_iter_t *it;
        if (o < n) o += (size_t)snprintf(out + o, n - o, " | align:");
        for (it = alignment_phones(al); it; it = alignment_iter_next(it)) {
            int st, du; alignment_iter_seg(it, &st, &du);
            if (o < n) o += (size_t)snprintf(out + o, n - o, " %s@%d+%d", alignment_iter_name(it), st, du);
        }
    } else if (o < n) o += (size_t)snprintf(out + o, n - o, " | align: none");
}

/* pieces: sizes[0..np-1], the remainder in one last piece */
static void run(decoder_t *d, const size_t *sizes, int np, size_t rep, int no_search, int ask_hyp, int as_float, const char *what)
{
    char sig[20000];
    size_t pos = 0; int k = 0;
    cases++;
    decoder_set_cmn(d, CMN0);
    decoder_start_utt(d);
    while (pos < nsamp) {
        size_t n = k < np ? sizes[k] : (rep ? rep : nsamp - pos);
        int rc;
        if (n > nsamp - pos) n = nsamp - pos;
        rc = as_float ? decoder_process_float32(d, fpcm + pos, n, no_search, 0) : decoder_process_int16(d, pcm + pos, n, no_search, 0);
        if (rc < 0) { if (fails++ < 8) printf("FAIL %s: decoder_process returns %d\n", what, rc); break; }
        if (ask_hyp) { int32 sc; (void)decoder_hyp(d, &sc); }
        pos += n; k++;
    }
    decoder_end_utt(d);
    signature(d, sig, sizeof sig);
    if (ref[0] == 0) { strcpy(ref, sig); printf("SAMPLE one call: %.400s\n", sig); }
    else {
        distinct++;
        if (strcmp(ref, sig) != 0) {
            size_t i = 0; while (ref[i] && ref[i] == sig[i]) i++;
            if (fails++ < 8) printf("FAIL %s: result differs from the one-call result at \"...%.60s\" (one call: \"...%.60s\")\n", what, sig + (i > 20 ? i - 20 : 0), ref + (i > 20 ? i - 20 : 0));
        }
    }
}

static char repo_root[400], tinydict[600];
static decoder_t *make_decoder(void)
{
    char path[700];
    config_t *c = config_init(NULL);
    decoder_t *d;
    snprintf(path, sizeof path, "%s/model/en-us", repo_root);
    config_set_str(c, "hmm", path);
    config_set_str(c, "dict", tinydict);
    config_set_str(c, "loglevel", "FATAL");
    config_set_str(c, "cmn", "live");
    d = decoder_init(c);
    if (!d) { printf("FAIL decoder_init\n"); exit(1); }
    snprintf(path, sizeof path, "%s/tests/data/goforward.gram", repo_root);
    if (decoder_set_jsgf_file(d, path) < 0) { printf("FAIL grammar\n"); exit(1); }
    return d;
}

static void family(decoder_t *d, const char *hist, int thorough, int fresh_each)
{
    static const size_t FIX[] = { 160, 512, 1000, 2048, 4096, 8000, 16000, 30000 };
    char what[200];
    int i, k, v;
    for (i = 0; i < 8; i++) for (v = 0; v < 6; v++) {
        snprintf(what, sizeof what, "%s, pieces of %zu samples, %s, %s, %s", hist, FIX[i], v & 1 ? "buffered then searched" : "searched as data arrives", v & 2 ? "partial results requested" : "no partial results", v >= 4 ? "float32" : "int16");
        if (v == 5) continue;
        run(d, NULL, 0, FIX[i], v & 1, (v & 2) != 0, v >= 4, what);
    }
    for (k = 100; k <= 150; k++) {
        int dlt;
        for (dlt = -1; dlt <= 1; dlt++) {
            size_t n1 = (size_t)(410 + (k - 1) * 160 + dlt);
            if (!thorough && dlt != 0 && (k < 124 || k > 134)) continue;
            for (v = 0; v < 2; v++) {
                /* the feature buffer of a NEW decoder holds 128 frames and only ever grows: a fresh decoder per run */
                decoder_t *dd = fresh_each ? make_decoder() : d;
                snprintf(what, sizeof what, "%s, first piece %zu samples (%d frames%+d sample) then the rest in one call, %s", hist, n1, k, dlt, v ? "buffered then searched" : "searched as data arrives");
                run(dd, &n1, 1, 0, v, 0, 0, what);
                if (fresh_each) decoder_free(dd);
            }
        }
    }
    {
        static const size_t small[] = { 400, 600, 1000, 1500, 2000, 3000, 5000 };
        for (i = 0; i < 7; i++) for (v = 0; v < 2; v++) {
            snprintf(what, sizeof what, "%s, first piece %zu samples then the rest (more than 250 frames) in one call, %s", hist, small[i], v ? "buffered then searched" : "searched as data arrives");
            run(d, &small[i], 1, 0, v, 0, 0, what);
        }
    }
}

int main(int argc, char **argv)
{
    int thorough = argc > 1 && strcmp(argv[1], "thorough") == 0;
    const char *repo = getenv("SSW_REPO") ? getenv("SSW_REPO") : "/repo";
    char path[600];
    decoder_t *d;
    FILE *f;
    size_t i;
    err_set_loglevel(ERR_FATAL);
    snprintf(path, sizeof path, "%s/tests/data/goforward.raw", repo);
    f = fopen(path, "rb");
    if (!f) { printf("FAIL cannot open %s\n", path); return 1; }
    fseek(f, 0, SEEK_END); nsamp = (size_t)ftell(f) / 2; rewind(f);
    pcm = malloc(nsamp * 2); fpcm = malloc(nsamp * 4);
    if (fread(pcm, 2, nsamp, f) != nsamp) return 3;
    fclose(f);
    for (i = 0; i < nsamp; i++) fpcm[i] = pcm[i] / 32768.0f;

    /* a dictionary with just the grammar's words keeps decoder_init fast */
    {
        static const char *W[] = { "go", "forward", "backward", "ten", "meters", "meter", "one", "two", "three", "four", "five", "six", "seven", "eight", "nine", NULL };
        char line[2000]; FILE *in, *out; int k;
        snprintf(repo_root, sizeof repo_root, "%s", repo);
        snprintf(path, sizeof path, "%s/model/en-us/dict.txt", repo);
        snprintf(tinydict, sizeof tinydict, "%s/chunking_dict_%d.txt", getenv("TMPDIR") ? getenv("TMPDIR") : "/tmp", (int)getpid());
        in = fopen(path, "r"); out = fopen(tinydict, "w");
        if (!in || !out) { printf("FAIL dictionary\n"); return 1; }
        while (fgets(line, sizeof line, in)) {
            size_t wl = strcspn(line, " \t(");
            for (k = 0; W[k]; k++) if (strlen(W[k]) == wl && strncmp(W[k], line, wl) == 0) { fputs(line, out); break; }
        }
        fclose(in); fclose(out);
    }
    d = make_decoder();

    /* the reference: one call */
    run(d, NULL, 0, 0, 0, 0, 0, "one call");
    if (strstr(ref, "go forward ten meters") == NULL) { printf("FAIL the one-call reference does not recognise the utterance: %.200s\n", ref); return 1; }
    run(d, NULL, 0, 0, 0, 0, 1, "one call, float32");
    family(d, "fresh decoder", thorough, 1);
    /* history: an utterance processed with full_utt = TRUE */
    decoder_set_cmn(d, CMN0);
    decoder_start_utt(d);
    decoder_process_int16(d, pcm, nsamp, 0, 1);
    decoder_end_utt(d);
    family(d, "after a full_utt utterance", thorough, 0);
    /* a recording that ends exactly on a window boundary (410 + 160 k samples): the trailing frame must not depend on
     * how the last samples arrive */
    {
        static const size_t P[] = { 160, 40, 410, 570, 1000 };
        size_t full = nsamp, n1; int v; char what[200];
        nsamp = 410 + 160 * ((full - 410) / 160);
        ref[0] = 0;
        run(d, NULL, 0, 0, 0, 0, 0, "one call, recording cut to a window boundary");
        for (i = 0; i < 5; i++) for (v = 0; v < 3; v++) {
            snprintf(what, sizeof what, "recording of %zu samples (window boundary), pieces of %zu samples, %s", nsamp, P[i], v == 0 ? "int16" : v == 1 ? "float32" : "buffered then searched");
            run(d, NULL, 0, P[i], v == 2, 0, v == 1, what);
        }
        n1 = nsamp - 80; snprintf(what, sizeof what, "recording of %zu samples (window boundary), all but 80 samples then 80", nsamp); run(d, &n1, 1, 0, 0, 0, 0, what);
        n1 = nsamp - 410; snprintf(what, sizeof what, "recording of %zu samples (window boundary), all but one window then the window", nsamp); run(d, &n1, 1, 0, 0, 0, 0, what);
        n1 = nsamp - 1; snprintf(what, sizeof what, "recording of %zu samples (window boundary), all but one sample then one sample", nsamp); run(d, &n1, 1, 0, 0, 0, 0, what);
        nsamp = full;
    }
    decoder_free(d);
    unlink(tinydict);
    printf("CASES %ld\nDISTINCT %ld\n", cases, distinct);
    return fails ? 1 : 0;
}
