#!/usr/bin/env python3
"""Driver for the contract-based verification of SoundSwallower with CBMC (DESIGN.md section 3).

    python3 run.py setup
    python3 run.py check <ID> [--tier quick|thorough] [--group G]... [--keep] [--jobs N] [--repo DIR]
    python3 run.py replay <replay-file>
    python3 run.py selftest [ID...]
    python3 run.py list

Exit status of `check`: 0 = every obligation of every group discharged (known findings
are printed as KNOWN-FINDING lines), 1 = at least one VIOLATION line, 2 = undecided
(time-out, tool error, extraction/injection error, vacuity) -- never reported as a violation.
"""
import argparse
import concurrent.futures
import hashlib
import importlib.util
import json
import os
import re
import shutil
import subprocess
import sys
import tempfile
import time

VERIF = os.path.dirname(os.path.abspath(__file__))
sys.path.insert(0, VERIF)
import inject  # noqa: E402

GUARD = "SOUNDSWALLOWER_VERIF"
DEFAULT_REPO = os.environ.get("SSW_REPO", "/repo")
CBMC_BASE = ["--drop-unused-functions", "--pointer-check", "--bounds-check", "--signed-overflow-check", "--div-by-zero-check",
             "--no-malloc-may-fail", "--pointer-overflow-check"]
MEM_KB = 20 * 1024 * 1024
TIMEOUT = {"quick": 420, "thorough": 1500}
CONFIG_H_DEFAULT = """#define HAVE_UNISTD_H
#define HAVE_STDINT_H
#define HAVE_SYS_TYPES_H
#define HAVE_SYS_STAT_H
#define HAVE_SNPRINTF
#define HAVE_POPEN
#define HAVE_GETRUSAGE
#define WORDS_BIGENDIAN 0
"""


# --------------------------------------------------------------------------- helpers
def sh(cmd, timeout=None, cwd=None, mem_kb=None, env=None):
    """Run cmd (list), return (rc, stdout, stderr, seconds, timed_out)."""
    t0 = time.time()
    pre = None
    if mem_kb:
        import resource

        def pre():
            resource.setrlimit(resource.RLIMIT_AS, (mem_kb * 1024, mem_kb * 1024))
    try:
        p = subprocess.run(cmd, stdout=subprocess.PIPE, stderr=subprocess.PIPE, timeout=timeout, cwd=cwd,
                           preexec_fn=pre, env=env)
        return p.returncode, p.stdout.decode("utf-8", "replace"), p.stderr.decode("utf-8", "replace"), time.time() - t0, False
    except subprocess.TimeoutExpired as e:
        so = (e.stdout or b"").decode("utf-8", "replace")
        se = (e.stderr or b"").decode("utf-8", "replace")
        return -9, so, se, time.time() - t0, True


def load_groups(pid):
    path = os.path.join(VERIF, "groups", pid + ".py")
    if not os.path.exists(path):
        raise SystemExit("no groups for %s" % pid)
    spec = importlib.util.spec_from_file_location("groups_" + pid, path)
    mod = importlib.util.module_from_spec(spec)
    spec.loader.exec_module(mod)
    return mod


def all_property_ids():
    ids = []
    for l in open(os.path.join(VERIF, "properties.jsonl")):
        l = l.strip()
        if l:
            ids.append(json.loads(l)["id"])
    return ids


class Undecided(Exception):
    pass


# --------------------------------------------------------------------------- scratch tree
def make_scratch(repo, keep=False):
    base = os.environ.get("SSW_SCRATCH_BASE") or tempfile.gettempdir()
    d = tempfile.mkdtemp(prefix="sswverif.", dir=base)
    info = {"files": {}, "loops": {}}
    for sub in ("src", "include"):
        shutil.copytree(os.path.join(repo, sub), os.path.join(d, sub), symlinks=True,
                        ignore=shutil.ignore_patterns("*.o", "*.a", "CMakeFiles"))
    os.makedirs(os.path.join(d, "cfg"))
    cfg = os.path.join(repo, "_build", "config.h")
    if os.path.exists(cfg):
        shutil.copy(cfg, os.path.join(d, "cfg", "config.h"))
    else:
        open(os.path.join(d, "cfg", "config.h"), "w").write(CONFIG_H_DEFAULT)
    # inject annotations
    for sub in ("src", "include"):
        for root, _dirs, files in os.walk(os.path.join(d, sub)):
            for f in files:
                if not f.endswith((".c", ".h")):
                    continue
                p = os.path.join(root, f)
                try:
                    txt = open(p, encoding="utf-8", errors="surrogateescape").read()
                except Exception:
                    continue
                if inject.TAG not in txt:
                    continue
                # shared copy: ghost/field text only; loop clauses are injected per group (only groups that apply loop
                # contracts see them, and only the loops they name)
                full, inf = inject.inject(txt, os.path.relpath(p, d))
                new, _ = inject.inject(txt, os.path.relpath(p, d), loops=set())
                open(p, "w", encoding="utf-8", errors="surrogateescape").write(new)
                if sub == "src":
                    os.makedirs(os.path.join(d, "raw"), exist_ok=True)
                    open(os.path.join(d, "raw", f), "w", encoding="utf-8", errors="surrogateescape").write(txt)
                # un-annotated twin (annotation comments blanked) for sources that are only linked in, not verified
                if sub == "src":
                    os.makedirs(os.path.join(d, "plain"), exist_ok=True)
                    open(os.path.join(d, "plain", f), "w", encoding="utf-8", errors="surrogateescape").write(inject.strip_for_diff(txt))
                rel = os.path.relpath(p, d)
                info["files"][rel] = inf
                for n in inf["loops"]:
                    info["loops"][n] = rel
    return d, info


# --------------------------------------------------------------------------- one group
def classify(name, desc):
    n = name
    if "VERIF_CANARY" in desc:
        return "canary"
    if ".unwind." in n or n.endswith(".unwind") or "unwinding assertion" in desc:
        return "unwind"
    if "postcondition" in n:
        return "postcondition"
    if "precondition" in n:
        return "precondition"
    if "loop_invariant_base" in n:
        return "loop_invariant_base"
    if "loop_invariant_step" in n:
        return "loop_invariant_step"
    if "loop_decreases" in n or "loop_decreases" in desc:
        return "loop_decreases"
    if "loop_assigns" in n or ".assigns." in n or "is assignable" in desc:
        return "frame"
    if "loop_step_unwinding" in n:
        return "loop_step"
    if ".assertion." in n:
        return "assertion"
    for k in ("pointer_dereference", "array_bounds", "overflow", "division-by-zero", "pointer_arithmetic",
              "pointer_primitives", "memory-leak", "undefined-shift", "precondition_instance", "alignment", "conversion", "NaN", "enum"):
        if k in n:
            return "safety"
    return "other"


def run_group(pid, g, scratch, tier, repo, keep_dir=None, trace=False, only_property=None):
    """Build, instrument and solve one group.  Returns a result dict."""
    name = g["name"]
    t0 = time.time()
    res = {"name": name, "enforced": g.get("enforce"), "replaced": g.get("replace", []), "status": "?",
           "bounded": g.get("bounded"), "obligations": [], "cmds": [], "solver_s": 0.0, "backend": None}
    wd = tempfile.mkdtemp(prefix="g_%s_" % name, dir=scratch)
    try:
        entry = g.get("entry", "h_" + name)
        harness = os.path.join(VERIF, g["harness"])
        if not os.path.exists(harness):
            raise Undecided("harness %s missing" % harness)
        incs = ["-I", os.path.join(VERIF, "include", "override"), "-I", os.path.join(scratch, "include"), "-I", os.path.join(scratch, "src"),
                "-I", os.path.join(scratch, "cfg"), "-I", os.path.join(VERIF, "include"),
                "-I", os.path.join(VERIF, "contracts"), "-I", os.path.join(VERIF, "harness")]
        defs = ["-DHAVE_CONFIG_H", "-D" + GUARD, "-DSSW_CBMC", "-Dexit=ssw_exit", "-Dabort=ssw_abort"]
        for k in g.get("defines", []):
            defs.append("-D" + k)
        replace = list(g.get("replace", []))
        if tier == "thorough":
            for k in g.get("defines_thorough", []):
                defs.append("-D" + k)
        else:
            for k in g.get("defines_quick", []):
                defs.append("-D" + k)
        # the functions the group talks about must exist in the working tree source
        for fn, rel in g.get("must_exist", []):
            txt = open(os.path.join(scratch, rel), errors="replace").read()
            if not re.search(r"\b%s\s*\(" % re.escape(fn), txt):
                raise Undecided("function %s not found in %s" % (fn, rel))
        # loop contracts are applied to every annotated loop of the binary: a group that names its loops gets private
        # copies of the annotated sources with ONLY those loop annotations injected (ghost/field text is always kept)
        if g.get("loop_contracts") and os.path.isdir(os.path.join(scratch, "raw")):
            want = set(g["loops"]) if g.get("loops") is not None else None
            os.makedirs(os.path.join(wd, "src"), exist_ok=True)
            for f in os.listdir(os.path.join(scratch, "raw")):
                txt = open(os.path.join(scratch, "raw", f), encoding="utf-8", errors="surrogateescape").read()
                try:
                    new, inf = inject.inject(txt, f, loops=want)
                except inject.InjectError as e:
                    raise Undecided("annotation injection failed: %s" % e)
                if inf["loops"]:
                    open(os.path.join(wd, "src", f), "w", encoding="utf-8", errors="surrogateescape").write(new)
            incs = ["-I", os.path.join(wd, "src")] + incs
        gb = os.path.join(wd, "a.gb")
        srcs = [harness]
        for s in g.get("extra_sources", []):
            if not s.startswith("@"):
                srcs.append(os.path.join(VERIF, s))
            else:
                plain = os.path.join(scratch, "plain", os.path.basename(s))
                srcs.append(plain if os.path.exists(plain) else os.path.join(scratch, s[1:]))
        cmd = ["goto-cc"] + defs + incs + ["--function", entry] + srcs + ["-o", gb]
        res["cmds"].append(" ".join(cmd))
        rc, so, se, _s, to = sh(cmd, timeout=120)
        if rc != 0:
            raise Undecided("goto-cc failed: " + (se + so)[-1500:])
        cur = gb
        if g.get("enforce") or g.get("replace") or g.get("loop_contracts"):
            gb2 = os.path.join(wd, "b.gb")
            cmd = ["goto-instrument", "--dfcc", entry]
            if g.get("enforce"):
                cmd += ["--enforce-contract", g["enforce"]]
            for r in replace:
                cmd += ["--replace-call-with-contract", r]
            if g.get("loop_contracts"):
                cmd += ["--apply-loop-contracts"]
            cmd += g.get("instrument_flags", [])
            cmd += [gb, gb2]
            res["cmds"].append(" ".join(cmd))
            rc, so, se, _s, to = sh(cmd, timeout=300, mem_kb=MEM_KB)
            if rc != 0 or not os.path.exists(gb2):
                raise Undecided("goto-instrument failed: " + (se + so)[-2500:])
            res["instrument_log"] = (so + se)[-4000:]
            cur = gb2
        flags = list(CBMC_BASE)
        for f in g.get("drop_flags", []):
            if f in flags:
                flags.remove(f)
        flags += g.get("flags", [])
        unwind = g.get("unwind", 12)
        if tier == "thorough" and g.get("unwind_thorough"):
            unwind = g["unwind_thorough"]
        flags += ["--unwind", str(unwind), "--unwinding-assertions"]
        if g.get("unwindset"):
            flags += ["--unwindset", g["unwindset"]]
        flags += ["--object-bits", str(g.get("object_bits", 10))]
        tmo = g.get("timeout", {}).get(tier) if isinstance(g.get("timeout"), dict) else g.get("timeout")
        tmo = tmo or TIMEOUT[tier]
        if os.environ.get("SSW_TIMEOUT"):
            tmo = int(os.environ["SSW_TIMEOUT"])
        backends = g.get("backends", [["--sat-solver", "cadical"], []])   # CaDiCaL first (3-10x faster here), MiniSat on time-out
        if trace:
            # counterexample extraction is best effort: one back end, short time limit
            backends = backends[:1]
            tmo = min(tmo, 150)
        out = None
        last_err = ""
        for be in backends:
            cmd = ["cbmc", cur] + flags + be + ["--json-ui"]
            if trace:
                cmd += ["--trace"]
            if only_property:
                cmd += ["--property", only_property]
            res["cmds"].append(" ".join(cmd))
            rc, so, se, secs, to = sh(cmd, timeout=tmo, mem_kb=MEM_KB)
            res["solver_s"] += secs
            if to:
                last_err = "cbmc timed out after %ds (%s)" % (tmo, " ".join(be) or "default sat")
                continue
            try:
                msgs = json.loads(so)
            except Exception:
                last_err = "cbmc output not JSON (rc=%d): %s" % (rc, (so[-800:] + se[-800:]))
                continue
            results = None
            warnings = []
            errors = []
            for m in msgs:
                if isinstance(m, dict):
                    if "result" in m:
                        results = m["result"]
                    if m.get("messageType") == "WARNING":
                        warnings.append(m.get("messageText", ""))
                    if m.get("messageType") == "ERROR":
                        errors.append(m.get("messageText", ""))
            if results is None:
                last_err = "cbmc gave no result list (rc=%d): %s" % (rc, "; ".join(errors)[-1500:] or so[-600:])
                continue
            if any(r.get("status") == "ERROR" for r in results) and be is not backends[-1]:
                # seen with CaDiCaL under the memory limit: some obligations come back ERROR -> let the next back end decide
                last_err = "cbmc reported status ERROR for some obligations (%s)" % (" ".join(be) or "default sat")
                continue
            out = (results, warnings)
            res["backend"] = "sat/" + (be[1] if be else "minisat(default)") if not be or be[0] == "--sat-solver" else be[0]
            break
        if out is None:
            raise Undecided(last_err)
        results, warnings = out
        res["warnings"] = [w for w in warnings if "no body for" in w or "ignoring" in w][:20]
        nobody = set()
        for w in warnings:
            m = re.search(r"no body for (?:function|callee) '?([A-Za-z0-9_$]+)", w)
            if m:
                nobody.add(m.group(1))
        allowed = set(g.get("allow_no_body", []))
        bad = sorted(x for x in nobody if x not in allowed and "*" not in allowed and not x.startswith("__CPROVER") and not x.startswith("nondet_"))
        if bad:
            raise Undecided("functions without body and without contract: " + ", ".join(bad))
        for r in results:
            nm = r.get("property", "?")
            desc = r.get("description", "")
            loc = r.get("sourceLocation", {})
            ob = {"name": nm, "status": r.get("status"), "desc": desc, "class": classify(nm, desc),
                  "file": os.path.basename(loc.get("file", "")), "function": loc.get("function", ""),
                  "line": loc.get("line", "")}
            if "trace" in r:
                ob["trace"] = r["trace"]
            res["obligations"].append(ob)
        res["status"] = "done"
    except Undecided as e:
        res["status"] = "undecided"
        res["reason"] = str(e)
    finally:
        res["wall_s"] = round(time.time() - t0, 2)
        if keep_dir:
            dst = os.path.join(keep_dir, name)
            shutil.rmtree(dst, ignore_errors=True)
            shutil.copytree(wd, dst)
        shutil.rmtree(wd, ignore_errors=True)
    return res


# --------------------------------------------------------------------------- known findings
def load_known():
    """known_findings.txt lines:
         finding: property=C15 group=<g> obligation=<regex on cbmc property name> [function=<f>] [desc=<regex>] :: <what fails>
         fixed: property=C15 <commit> <what failed>
    """
    out = []
    p = os.path.join(VERIF, "known_findings.txt")
    if not os.path.exists(p):
        return out
    for line in open(p):
        line = line.strip()
        if not line.startswith("finding:"):
            continue
        head, _, what = line[len("finding:"):].partition("::")
        kv = dict(re.findall(r"(\w+)=(\S+)", head))
        kv["what"] = what.strip()
        out.append(kv)
    return out


def match_known(known, pid, group, ob):
    for k in known:
        if k.get("property") != pid:
            continue
        if k.get("group") and k["group"] != group:
            continue
        if k.get("obligation") and not re.search(k["obligation"], ob["name"]):
            continue
        if k.get("function") and k["function"] != ob["function"]:
            continue
        if k.get("desc") and not re.search(k["desc"].replace("_", " "), ob["desc"]):
            continue
        return k
    return None


# --------------------------------------------------------------------------- trace -> inputs
def flatten_value(prefix, v, out):
    if not isinstance(v, dict):
        return
    n = v.get("name")
    if n == "struct":
        for m in v.get("members", []):
            flatten_value(prefix + "." + m.get("name", "?"), m.get("value"), out)
    elif n == "array":
        for e in v.get("elements", []):
            flatten_value("%s[%s]" % (prefix, e.get("index")), e.get("value"), out)
    elif n == "union":
        flatten_value(prefix, v.get("member", {}).get("value"), out)
    else:
        if "data" in v:
            out[prefix] = {"data": v["data"], "type": v.get("type", ""), "binary": v.get("binary")}


def trace_inputs(trace, entry):
    """Assignments made inside the harness entry function to variables named in_* (last value wins),
    plus every assignment to a ghost static whose name starts with verif_."""
    vals = {}
    steps = []
    lastvals = {}
    for st in trace:
        if st.get("stepType") != "assignment" or st.get("hidden"):
            continue
        lhs = st.get("lhs", "")
        fn = st.get("sourceLocation", {}).get("function", "")
        if lhs.startswith("in_") or lhs.startswith("verif_") or re.match(r"(dynamic_object|tmp_if_expr)", lhs) is None and fn == entry:
            flat = {}
            flatten_value(lhs, st.get("value"), flat)
            for k, v in flat.items():
                vals[k] = v
        if not fn.startswith("__CPROVER") and not lhs.startswith("__") and "write_set" not in lhs and len(lhs) < 60:
            d = (st.get("value") or {}).get("data")
            if d is not None:
                lastvals[lhs] = d
        if True:
            steps.append({"lhs": lhs, "fn": fn, "line": st.get("sourceLocation", {}).get("line"),
                          "val": (st.get("value") or {}).get("data")})
    steps = steps[-300:]
    steps.append({"last_value_of_each_variable": dict(list(lastvals.items())[-400:])})
    return vals, steps


# --------------------------------------------------------------------------- native replay
def native_replay(pid, g, inputs, scratch, repo):
    """If the group names a native replay (harness compiled natively with -DSSW_REPLAY, inputs fed from the
    verifier's counterexample), run it under ASan+UBSan against the working-tree sources.
    Returns (status, output) with status in reproduced / not-reproduced / no-driver."""
    if not g.get("native_replay"):
        return "no-driver", ""
    wd = tempfile.mkdtemp(prefix="replay_", dir=scratch)
    try:
        inp = os.path.join(wd, "inputs.txt")
        with open(inp, "w") as f:
            for k, v in inputs.items():
                f.write("%s\t%s\t%s\n" % (k, v.get("data"), v.get("binary") or ""))
        exe = os.path.join(wd, "replay")
        harness = os.path.join(VERIF, g["harness"])
        cmd = ["clang", "-g", "-O0", "-fsanitize=address,undefined", "-fno-sanitize-recover=undefined",
               "-DHAVE_CONFIG_H", "-D" + GUARD, "-DSSW_REPLAY",
               "-DSSW_ENTRY=" + g.get("entry", "h_" + g["name"]),
               "-I", os.path.join(scratch, "plain"),  # annotation comments blanked: the code as the library build sees it
               "-I", os.path.join(scratch, "include"), "-I", os.path.join(scratch, "src"),
               "-I", os.path.join(scratch, "cfg"), "-I", os.path.join(VERIF, "include"),
               "-I", os.path.join(VERIF, "contracts"), "-I", os.path.join(VERIF, "harness")]
        for k in g.get("defines", []):
            cmd.append("-D" + k)
        cmd += [harness, os.path.join(VERIF, "replay", "replay_main.c")]
        nsrc = g.get("native_sources", [])
        if nsrc == "ALL":
            # the whole library (working-tree sources) except the file(s) the harness #includes itself
            excl = set(g.get("native_exclude", []))
            nsrc = []
            for root, _d, files in os.walk(os.path.join(scratch, "src")):
                for f in sorted(files):
                    if f.endswith(".c") and f not in excl:
                        nsrc.append(os.path.relpath(os.path.join(root, f), scratch))
            cmd += ["-I", os.path.join(scratch, "src"), "-w"]
        for s in nsrc:
            pl = os.path.join(scratch, "plain", os.path.basename(s))
            cmd.append(pl if os.path.exists(pl) else os.path.join(scratch, s))
        cmd += ["-lm", "-o", exe]
        rc, so, se, _s, to = sh(cmd, timeout=180)
        if rc != 0:
            return "no-driver", "native replay build failed:\n" + (se + so)[-2000:]
        env = dict(os.environ)
        env["ASAN_OPTIONS"] = "detect_leaks=0:abort_on_error=0"
        rc, so, se, _s, to = sh([exe, inp], timeout=60, env=env)
        text = (so + se)[-4000:]
        if to:
            return "reproduced", "native replay did not terminate in 60 s\n" + text
        if rc == 77:
            return "not-reproduced", "inputs rejected by the precondition in the native run\n" + text
        if rc != 0:
            return "reproduced", "exit status %d\n%s" % (rc, text)
        return "not-reproduced", text
    finally:
        shutil.rmtree(wd, ignore_errors=True)


# --------------------------------------------------------------------------- check
def select_groups(mod, tier, only=None):
    gs = []
    for g in mod.GROUPS:
        tiers = g.get("tiers", ("quick", "thorough"))
        if only and g["name"] not in only:
            continue
        if tier not in tiers and not (only and g["name"] in only):
            continue
        gs.append(g)
    return gs


def check(pid, tier, only=None, keep=False, jobs=None, repo=DEFAULT_REPO, quiet=False, write_evidence=True):
    t0 = time.time()
    seed = int(os.environ.get("VERIF_SEED", "0") or 0)
    mod = load_groups(pid)
    groups = select_groups(mod, tier, only)
    known = load_known()
    # replay files of earlier runs of this property are stale
    rdir = os.path.join(VERIF, "replays")
    if os.path.isdir(rdir):
        for f in os.listdir(rdir):
            if f.startswith(pid + "_") and (not only or any(f.startswith("%s_%s_" % (pid, g)) for g in only)):
                os.unlink(os.path.join(rdir, f))
    undec = []
    violations = []
    known_hits = []
    observations = []
    results = []
    native_results = []
    scratch = None
    try:
        try:
            scratch, inj = make_scratch(repo)
        except inject.InjectError as e:
            print("UNDECIDED property=%s reason=annotation injection failed: %s" % (pid, e))
            scratch = None
            return 2
        # loops named by groups must exist
        for g in groups:
            for ln in g.get("loops", []):
                if ln not in inj["loops"]:
                    undec.append((g["name"], "annotated loop %s not found in the working tree" % ln))
        keep_dir = None
        if keep:
            keep_dir = os.path.join(VERIF, "_keep", pid)
            os.makedirs(keep_dir, exist_ok=True)
        jobs = jobs or int(os.environ.get("SSW_JOBS", "0") or 0) or min(12, os.cpu_count() or 4)
        with concurrent.futures.ThreadPoolExecutor(max_workers=jobs) as ex:
            futs = {ex.submit(run_group, pid, g, scratch, tier, repo, keep_dir): g for g in groups}
            nat_futs = {}
            for n in getattr(mod, "NATIVE", []):
                if tier in n.get("tiers", ("quick", "thorough")) and (not only or n["name"] in only):
                    nat_futs[ex.submit(run_native, pid, n, scratch, tier, repo, seed)] = n
            for f in concurrent.futures.as_completed(list(futs) + list(nat_futs)):
                if f in futs:
                    results.append((futs[f], f.result()))
                else:
                    native_results.append((nat_futs[f], f.result()))
        results.sort(key=lambda x: [g["name"] for g in groups].index(x[0]["name"]))
        n_obl = n_ok = n_unb = 0
        bounded = []
        gsum = []
        samples = []
        for g, r in results:
            gi = {"name": r["name"], "enforced": r["enforced"], "replaced": r["replaced"], "status": r["status"],
                  "backend": r["backend"], "solver_s": round(r["solver_s"], 2), "wall_s": r["wall_s"],
                  "bounded": r["bounded"], "loop_contracts": bool(g.get("loop_contracts"))}
            if r["status"] != "done":
                undec.append((r["name"], r.get("reason", "?")))
                gi["reason"] = r.get("reason", "?")[:400]
                gsum.append(gi)
                continue
            obs = r["obligations"]
            entry = g.get("entry", "h_" + g["name"])
            obs = [o for o in obs if not (o["class"] == "canary" and o["function"] != entry)]
            canaries = [o for o in obs if o["class"] == "canary"]
            real = [o for o in obs if o["class"] != "canary"]
            if g.get("canary", True):
                if not canaries:
                    undec.append((r["name"], "no canary obligation generated"))
                elif any(o["status"] != "FAILURE" for o in canaries):
                    undec.append((r["name"], "vacuous: canary %s did not fail (unreachable end of harness / contradictory preconditions)" %
                                  [o["name"] for o in canaries if o["status"] != "FAILURE"]))
                gi["canary"] = "fails-as-expected" if canaries and all(o["status"] == "FAILURE" for o in canaries) else "PROBLEM"
            if len(real) < g.get("min_obligations", 1):
                undec.append((r["name"], "only %d obligations generated (minimum %d)" % (len(real), g.get("min_obligations", 1))))
            if g.get("loop_contracts"):
                nstep = len(set(o["name"] for o in real if o["class"] == "loop_invariant_step"))
                if nstep < g.get("min_loop_steps", 1):
                    undec.append((r["name"], "loop contracts not applied: %d loop_invariant_step obligations (expected >= %d)" %
                                  (nstep, g.get("min_loop_steps", 1))))
                gi["loop_invariant_step_obligations"] = nstep
            # enforced function must have generated postcondition obligations when the group promises some
            if g.get("enforce") and g.get("min_postconditions", 1):
                npost = len([o for o in real if o["class"] == "postcondition"])
                if npost < g.get("min_postconditions", 1):
                    undec.append((r["name"], "only %d postcondition obligations (expected >= %d)" % (npost, g.get("min_postconditions", 1))))
            failed = []
            any_failure = any(o["status"] == "FAILURE" for o in real)
            for o in real:
                if o["status"] == "SUCCESS":
                    continue
                if o["status"] != "FAILURE":
                    # cbmc reports UNKNOWN for obligations behind a failed one; only the failures are reported then
                    if not any_failure:
                        undec.append((r["name"], "obligation %s has status %s" % (o["name"], o["status"])))
                    continue
                if o["class"] == "unwind" and (o["function"].startswith("__CPROVER_contracts") or "__CPROVER_contracts" in o["name"]):
                    undec.append((r["name"], "contract-library unwinding bound too small: " + o["name"]))
                    continue
                if o["function"].startswith("__CPROVER_contracts") and o["class"] != "frame":
                    undec.append((r["name"], "assertion inside the contract library failed (specification/tool problem, not a property of the code): %s %s" % (o["name"], o["desc"])))
                    continue
                if any(re.search(rx, o["desc"]) for rx in g.get("outside_property", [])):
                    # undefined behaviour that no listed property talks about (e.g. 1 << 31 on int): recorded as an
                    # observation in the evidence file, neither an obligation of the property nor a violation
                    observations.append({"group": r["name"], "obligation": o["name"], "text": o["desc"][:200]})
                    o["status"] = "OBSERVATION"
                    continue
                if o["class"] == "unwind" and not g.get("unwind_is_obligation"):
                    undec.append((r["name"], "unwinding bound %s insufficient: %s" % (g.get("unwind", 12), o["name"])))
                    continue
                failed.append(o)
            n_known_here = len([o for o in failed if match_known(known, pid, r["name"], o)])
            # obligations behind a known finding: the failed one itself and the ones cbmc then reports UNKNOWN
            n_behind = 0
            if failed and n_known_here == len(failed):
                n_behind = len([o for o in real if o["status"] not in ("SUCCESS", "FAILURE")])
            n_obs_here = len([o for o in real if o["status"] == "OBSERVATION"])
            n_behind += n_obs_here   # observations are not obligations of the property
            gi["observations_outside_property"] = n_obs_here
            gi["obligations"] = len(real) - n_known_here - n_behind
            gi["failed"] = len(failed)
            gi["known_finding_obligations"] = n_known_here + n_behind   # reported separately, not counted as obligations
            n_obl += len(real) - n_known_here - n_behind
            n_ok += len([o for o in real if o["status"] == "SUCCESS"])
            if r["bounded"]:
                bounded.append({"group": r["name"], "bound": r["bounded"], "obligations": len(real)})
            else:
                n_unb += len([o for o in real if o["status"] == "SUCCESS"])
            for o in real:
                if o["class"] in ("postcondition",) and len([s for s in samples if s["group"] == r["name"]]) < 2:
                    samples.append({"group": r["name"], "obligation": "%s/%s/%s" % (pid, r["name"], o["name"]),
                                    "class": o["class"], "text": o["desc"][:300], "status": o["status"]})
            gi["checker_cmds"] = r["cmds"]
            # failures -> known / violation
            need_trace = []
            for o in failed:
                k = match_known(known, pid, r["name"], o)
                if k:
                    known_hits.append((k, r["name"], o))
                else:
                    need_trace.append(o)
            if need_trace:
                violations.append((g, r, need_trace))
            gsum.append(gi)
        # native stand-ins
        nat_sum = []
        for n, nr in native_results:
            nat_sum.append(nr)
            for kl in nr.get("known_lines", []):
                fake = {"name": "native." + n["name"], "function": "", "desc": kl, "class": "native"}
                k = match_known(known, pid, n["name"], fake)
                if k:
                    known_hits.append((k, n["name"], fake))
                else:
                    violations.append((n, {"name": n["name"], "native": dict(nr, what=kl)}, [fake]))
            if nr["status"] == "undecided":
                undec.append((n["name"], nr.get("reason", "?")))
            elif nr["status"] == "fail":
                fake = {"name": "native." + n["name"], "function": "", "desc": nr.get("what", ""), "class": "native"}
                k = match_known(known, pid, n["name"], fake)
                if k:
                    known_hits.append((k, n["name"], fake))
                else:
                    violations.append((n, {"name": n["name"], "native": nr}, [fake]))
        # report
        rc = 0
        printed = set()
        for k, gname, o in known_hits:
            key = (k.get("what"),)
            if key in printed:
                continue
            printed.add(key)
            print("KNOWN-FINDING: property=%s %s [group %s, obligation %s]" % (pid, k.get("what"), gname, o["name"]))
        vio_count = 0
        for g, r, obs in violations:
            path = write_replay(pid, g, r, obs, scratch, tier, repo)
            for pth, suffix in path:
                print("VIOLATION property=%s replay=%s%s" % (pid, pth, suffix))
                vio_count += 1
            rc = 1
        if undec:
            seen_u = {}
            for gname, why in undec:
                seen_u[gname] = seen_u.get(gname, 0) + 1
                if seen_u[gname] > 3:
                    continue
                print("UNDECIDED property=%s group=%s reason=%s" % (pid, gname, " ".join(why.split())[:600]))
            if rc == 0:
                rc = 2
        wall = time.time() - t0
        if write_evidence:
            ev = build_evidence(pid, tier, seed, mod, gsum, nat_sum, n_obl, n_ok, n_unb, bounded, samples,
                                known_hits, vio_count, undec, wall, inj)
            ev["coverage"]["observations_outside_property"] = observations
            os.makedirs(os.path.join(VERIF, "evidence"), exist_ok=True)
            json.dump(ev, open(os.path.join(VERIF, "evidence", pid + ".json"), "w"), indent=1)
        if not quiet:
            for gi in gsum:
                print("  group %-28s %-9s obligations=%-5s failed=%-3s %6.1fs %s%s" %
                      (gi["name"], gi["status"], gi.get("obligations", "-"), gi.get("failed", "-"), gi["wall_s"],
                       gi.get("backend") or "", "  [bounded: %s]" % gi["bounded"] if gi["bounded"] else ""))
            for nr in nat_sum:
                print("  native %-27s %-9s cases=%s %6.1fs" % (nr["name"], nr["status"], nr.get("cases", "-"), nr.get("wall_s", 0)))
            print("%s %s: obligations=%d discharged=%d (unbounded %d) violations=%d known=%d undecided=%d wall=%.1fs -> exit %d" %
                  (pid, tier, n_obl, n_ok, n_unb, vio_count, len(printed), len(undec), wall, rc))
        return rc
    finally:
        if scratch and not os.environ.get("SSW_KEEP_SCRATCH"):
            shutil.rmtree(scratch, ignore_errors=True)


def run_native(pid, n, scratch, tier, repo, seed):
    """Native stand-in (bounded / exhaustive enumeration of a finite space) -- labelled bounded, never proof.
    The program prints lines 'CASES <n>', 'DISTINCT <n>', optional 'SAMPLE <text>', and 'FAIL <what>' lines."""
    t0 = time.time()
    r = {"name": n["name"], "status": "?", "bound": n.get("bound"), "exhaustive": n.get("exhaustive", False)}
    wd = tempfile.mkdtemp(prefix="n_%s_" % n["name"], dir=scratch)
    try:
        exe = os.path.join(wd, "nat")
        cmd = ["cc", "-O1", "-g", "-DHAVE_CONFIG_H", "-I", os.path.join(scratch, "plain"), "-I", os.path.join(scratch, "include"), "-I", os.path.join(scratch, "src"),
               "-I", os.path.join(scratch, "cfg"), "-I", os.path.join(VERIF, "include")]
        cmd += n.get("cflags", [])
        rs = n.get("repo_sources", [])
        if isinstance(rs, str) and rs.startswith("ALL_EXCEPT:"):
            excl = set(rs.split(":", 1)[1].split(","))
            rs = []
            for root, _d, files in os.walk(os.path.join(scratch, "src")):
                for f in sorted(files):
                    if f.endswith(".c") and f not in excl:
                        rs.append(os.path.relpath(os.path.join(root, f), scratch))
        cmd += ["-I", os.path.join(scratch, "plain")]
        cmd += [os.path.join(VERIF, n["source"])]
        for s in rs:
            pl = os.path.join(scratch, "plain", os.path.basename(s))
            cmd.append(pl if os.path.exists(pl) else os.path.join(scratch, s))
        cmd += ["-lm", "-o", exe]
        rc, so, se, _s, to = sh(cmd, timeout=300)
        if rc != 0:
            r["status"] = "undecided"
            r["reason"] = "native build failed: " + (se + so)[-1200:]
            return r
        args = n.get("args", {}).get(tier, [])
        env = dict(os.environ)
        env.setdefault("ASAN_OPTIONS", "detect_leaks=0")
        # model files are data: a source-only scratch copy (seedtest.sh) uses the bundled models of /repo
        env["SSW_REPO"] = repo if os.path.isdir(os.path.join(repo, "model")) and os.path.isdir(os.path.join(repo, "tests", "data")) else "/repo"
        env["TMPDIR"] = wd
        env.update(n.get("env", {}))
        rc, so, se, _s, to = sh([exe] + [str(a) for a in args] + [str(seed)], timeout=n.get("timeout", 900), env=env)
        r["cmd"] = " ".join(cmd) + " && ./nat " + " ".join(str(a) for a in args)
        if to:
            r["status"] = "undecided"
            r["reason"] = "native run timed out"
            return r
        fails = [l[5:] for l in so.splitlines() if l.startswith("FAIL ")]
        r["known_lines"] = [l[6:] for l in so.splitlines() if l.startswith("KNOWN ")]
        m = re.search(r"^CASES (\d+)", so, re.M)
        r["cases"] = int(m.group(1)) if m else 0
        m = re.search(r"^DISTINCT (\d+)", so, re.M)
        r["distinct"] = int(m.group(1)) if m else 0
        r["samples"] = [l[7:] for l in so.splitlines() if l.startswith("SAMPLE ")][:6]
        if fails:
            r["status"] = "fail"
            r["what"] = fails[0]
            r["fails"] = fails[:10]
        elif rc != 0:
            # exit 1 = the program's own failure / sanitizer report; death by SIGABRT (failed assert), SIGSEGV, SIGBUS, SIGFPE,
            # SIGILL inside the code under test is a failure too (the same harness runs clean on the unchanged tree);
            # anything else (SIGKILL, time-out, setup error) stays undecided
            crashed = rc in (-6, -11, -7, -8, -4, 134, 139, 135, 136, 132)
            r["status"] = "fail" if (rc == 1 or crashed) else "undecided"
            r["what"] = r["reason"] = "native program %s: %s" % ("killed by a fatal signal (abort / failed assertion / segmentation fault), rc=%d" % rc if crashed else "exit %d" % rc, (so + se)[-600:])
        elif r["cases"] == 0:
            r["status"] = "undecided"
            r["reason"] = "native program explored zero cases"
        else:
            r["status"] = "ok"
        return r
    finally:
        r["wall_s"] = round(time.time() - t0, 2)
        shutil.rmtree(wd, ignore_errors=True)


def write_replay(pid, g, r, obs, scratch, tier, repo):
    """One replay file per failing obligation (at most 3 per group).  Re-runs cbmc with --trace for the obligation."""
    os.makedirs(os.path.join(VERIF, "replays"), exist_ok=True)
    out = []
    for o in obs[:3]:
        rec = {"property": pid, "group": g["name"], "tier": tier, "obligation": "%s/%s/%s" % (pid, g["name"], o["name"]),
               "cbmc_property": o["name"], "class": o["class"], "description": o["desc"],
               "location": {"file": o.get("file"), "function": o.get("function"), "line": o.get("line")}}
        suffix = " no-failing-input-found"
        if "native" in r:
            rec["native"] = "reproduced"
            rec["native_output"] = r["native"]
            suffix = ""
        else:
            # 1. the verifier's trace for the failed obligation of the contract group itself
            tr = run_group(pid, g, scratch, tier, repo, trace=True, only_property=o["name"])
            inputs = {}
            if tr["status"] == "done":
                for t in tr["obligations"]:
                    if t["name"] == o["name"] and "trace" in t:
                        inputs, steps = trace_inputs(t["trace"], g.get("entry", "h_" + g["name"]))
                        rec["trace_tail"] = steps[-120:]
                rec["verifier_cmds"] = tr["cmds"]
            else:
                rec["verifier_trace_error"] = tr.get("reason")
            # 2. groups with a constructive replay harness: get a concrete input from it and run it natively
            rg = g.get("replay")
            st, text = "no-driver", ""
            if rg:
                rr = run_group(pid, rg, scratch, tier, repo, trace=True)
                rinputs = {}
                if rr["status"] == "done":
                    for t in rr["obligations"]:
                        if t["status"] == "FAILURE" and "trace" in t and t["class"] not in ("canary", "unwind"):
                            rinputs, _steps = trace_inputs(t["trace"], rg["entry"])
                            rec["replay_harness_obligation"] = t["name"] + ": " + t["desc"]
                            break
                if rinputs:
                    rec["inputs"] = {k: v["data"] for k, v in rinputs.items() if k.startswith("in_")}
                    st, text = native_replay(pid, rg, rinputs, scratch, repo)
                else:
                    text = "the constructive replay harness found no failing input (%s)" % rr.get("reason", "all its obligations hold")
            elif inputs:
                rec["inputs"] = {k: v["data"] for k, v in inputs.items()}
            rec["native"] = st
            rec["native_output"] = text
            if st == "reproduced":
                suffix = ""
        h = hashlib.sha1((g["name"] + o["name"]).encode()).hexdigest()[:8]
        path = os.path.join(VERIF, "replays", "%s_%s_%s.json" % (pid, g["name"], h))
        json.dump(rec, open(path, "w"), indent=1)
        out.append((path, suffix))
    return out


def scan_assumptions(mod, gsum):
    """Mechanical scan: contracts used by replacement but never enforced in this property's groups, __CPROVER_assume
    in harnesses/contracts."""
    enforced = set(g["enforced"] for g in gsum if g["enforced"])
    also = set(getattr(mod, "ENFORCED_ELSEWHERE", {}).keys())
    replaced = set()
    for g in gsum:
        replaced.update(g["replaced"])
    assumed = sorted(x for x in replaced if x not in enforced and x not in also)
    notes = []
    for x in assumed:
        notes.append("assumed contract (used at call sites, not enforced on a body in this check): " + x)
    for x in sorted(replaced & also):
        notes.append("contract of %s used here is enforced in %s" % (x, getattr(mod, "ENFORCED_ELSEWHERE")[x]))
    return notes


def build_evidence(pid, tier, seed, mod, gsum, nat_sum, n_obl, n_ok, n_unb, bounded, samples, known_hits, vio, undec, wall, inj):
    fns = sorted(set(g["enforced"] for g in gsum if g["enforced"]) | set(getattr(mod, "EXTRA_FUNCTIONS_UNDER_CONTRACT", [])))
    cmds = []
    for g in gsum:
        for c in g.get("checker_cmds", [])[:3]:
            cmds.append(c)
    ev = {
        "property_id": pid, "tier": tier, "seed": seed, "level": getattr(mod, "LEVEL", "proof"),
        "coverage": {
            "obligations": n_obl, "discharged": n_ok,
            "proved_unbounded": n_unb,
            "bounded": bounded,
            "functions_under_contract": fns,
            "checker_cmd": (cmds[0] + " ; " + cmds[1] + " ; " + cmds[2]) if len(cmds) >= 3 else " ; ".join(cmds) or "none",
            "trusted_base": ["cbmc 6.11.0 (goto-cc, goto-instrument --dfcc contract instrumentation, symex, propositional back end)",
                             "inject.py annotation injector (additive, line preserving)"] + list(getattr(mod, "TRUSTED", [])),
            "groups": [{k: v for k, v in g.items() if k != "checker_cmds"} for g in gsum],
            "group_cmds": {g["name"]: g.get("checker_cmds", []) for g in gsum},
            "native_standins": nat_sum,
            "samples": samples[:12] or [{"note": "no postcondition obligations in this run"}],
            "hand_lemmas": list(getattr(mod, "HAND_LEMMAS", [])),
            "not_covered": list(getattr(mod, "NOT_COVERED", [])),
            "known_findings_hit": [{"what": k.get("what"), "group": gn, "obligation": o["name"]} for k, gn, o in known_hits],
            "undecided": [{"group": a, "reason": b[:300]} for a, b in undec],
            "annotations_injected": inj["files"] if inj else {},
            "solver_s_total": round(sum(g["solver_s"] for g in gsum), 2),
        },
        "assumptions": list(getattr(mod, "ASSUMPTIONS", [])) + scan_assumptions(mod, gsum),
        "violations": vio, "wall_s": round(wall, 2)}
    if nat_sum:
        ev["coverage"]["evaluations"] = sum(n.get("cases", 0) for n in nat_sum)
        ev["coverage"]["distinct_nontrivial"] = sum(n.get("distinct", 0) for n in nat_sum)
        ev["coverage"]["rule"] = ("native stand-ins only (see native_standins[].bound): cases are enumerated exhaustively or listed explicitly by the program; "
                                  "a case counts as distinct and non-trivial by the program's own DISTINCT rule (e.g. more than one token / arc / word, non-empty language)")
    return ev


# --------------------------------------------------------------------------- replay command
def replay(path):
    rec = json.load(open(path))
    pid = rec["property"]
    gname = rec["group"]
    print("replaying %s: group %s obligation %s" % (pid, gname, rec.get("cbmc_property")))
    rc = check(pid, rec.get("tier", "quick"), only=[gname], write_evidence=False)
    return rc


# --------------------------------------------------------------------------- selftest
def selftest(ids):
    """Apply each committed mutant (mutants/<ID>_*.diff, first line '# expect: <group> <obligation-regex>' or
    '# expect: pass') to a scratch copy of /repo and run the property's quick check against it."""
    mdir = os.path.join(VERIF, "mutants")
    rows = []
    for f in sorted(os.listdir(mdir)):
        if not f.endswith(".diff"):
            continue
        pid = f.split("_")[0]
        if ids and pid not in ids:
            continue
        head = open(os.path.join(mdir, f)).readline()
        m = re.match(r"#\s*expect:\s*(\S+)(?:\s+(\S+))?(?:\s+(\S+))?", head)
        if not m:
            print("selftest: %s has no expect line" % f)
            continue
        tmp = tempfile.mkdtemp(prefix="sswmut.")
        try:
            for sub in ("src", "include"):
                shutil.copytree(os.path.join(DEFAULT_REPO, sub), os.path.join(tmp, sub))
            if os.path.exists(os.path.join(DEFAULT_REPO, "_build", "config.h")):
                os.makedirs(os.path.join(tmp, "_build"))
                shutil.copy(os.path.join(DEFAULT_REPO, "_build", "config.h"), os.path.join(tmp, "_build", "config.h"))
            rc, so, se, _s, _to = sh(["patch", "-p1", "-s", "-d", tmp, "-i", os.path.join(mdir, f)])
            if rc != 0:
                rows.append((f, "PATCH-FAILED", so + se))
                continue
            only = None if m.group(1) in ("pass", "any") else [m.group(1)]
            p = subprocess.run([sys.executable, os.path.abspath(__file__), "check", pid, "--repo", tmp, "--no-evidence"] +
                               (["--group", only[0]] if only else []), stdout=subprocess.PIPE, stderr=subprocess.STDOUT)
            txt = p.stdout.decode()
            if m.group(1) == "pass":
                ok = p.returncode == 0
            else:
                ok = p.returncode == 1 and "VIOLATION property=%s" % pid in txt
            rows.append((f, "ok" if ok else "MISSED(rc=%d)" % p.returncode, txt[-600:] if not ok else ""))
        finally:
            shutil.rmtree(tmp, ignore_errors=True)
    bad = 0
    for f, st, txt in rows:
        print("selftest %-50s %s" % (f, st))
        if st != "ok":
            bad += 1
            print(txt)
    json.dump({"when": time.strftime("%Y-%m-%dT%H:%M:%S"), "rows": [(f, st) for f, st, _ in rows]},
              open(os.path.join(VERIF, "selftest_last.json"), "w"), indent=1)
    return 1 if bad else 0


def main():
    ap = argparse.ArgumentParser()
    sub = ap.add_subparsers(dest="cmd")
    sub.add_parser("setup")
    sub.add_parser("list")
    c = sub.add_parser("check")
    c.add_argument("pid")
    c.add_argument("--tier", default=os.environ.get("VERIF_TIER", "quick"), choices=["quick", "thorough"])
    c.add_argument("--group", action="append")
    c.add_argument("--keep", action="store_true")
    c.add_argument("--jobs", type=int)
    c.add_argument("--repo", default=DEFAULT_REPO)
    c.add_argument("--no-evidence", action="store_true")
    r = sub.add_parser("replay")
    r.add_argument("path")
    s = sub.add_parser("selftest")
    s.add_argument("ids", nargs="*")
    a = ap.parse_args()
    if a.cmd == "setup":
        for tool in ("cbmc", "goto-cc", "goto-instrument", "clang", "cc"):
            if not shutil.which(tool):
                print("missing tool", tool)
                return 1
        print("setup ok: " + subprocess.run(["cbmc", "--version"], stdout=subprocess.PIPE).stdout.decode().strip())
        return 0
    if a.cmd == "list":
        for pid in all_property_ids():
            p = os.path.join(VERIF, "groups", pid + ".py")
            if os.path.exists(p):
                mod = load_groups(pid)
                print(pid, [g["name"] for g in mod.GROUPS], [n["name"] for n in getattr(mod, "NATIVE", [])])
        return 0
    if a.cmd == "check":
        return check(a.pid, a.tier, only=a.group, keep=a.keep, jobs=a.jobs, repo=a.repo,
                     write_evidence=not a.no_evidence and not a.group)
    if a.cmd == "replay":
        return replay(a.path)
    if a.cmd == "selftest":
        return selftest(a.ids)
    ap.print_help()
    return 2


if __name__ == "__main__":
    sys.exit(main())
