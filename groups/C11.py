# C11 -- lattice well-formedness (local facts)
H = "harness/C11_lattice.c"
RL = {"name": "lattice_nodes_replay", "harness": H, "entry": "r_lattice_nodes", "native_replay": True, "canary": False, "allow_no_body": ["*"], "unwind": 6,
      "native_sources": "ALL", "native_exclude": ["fsg_search.c", "ps_lattice.c"]}
GROUPS = [
    dict(name="fsg_search_lattice_cached", harness=H, entry="h_fsg_search_lattice_cached", enforce="fsg_search_lattice", allow_no_body=["*"], unwind=3, min_postconditions=1),
    dict(name="lattice_nodes", harness=H, entry="r_lattice_nodes", allow_no_body=["*"], unwind=6, replay=RL,
         bounded="<= 3 existing nodes with symbolic keys, one new_node / find_node query, two lattice_link calls on one node pair"),
    dict(name="find_end_node_fallback", harness=H, entry="r_find_end_node", allow_no_body=["*"], unwind=6, extra_sources=["@src/glist.c"],
         replay=dict(RL, name="find_end_node_replay", entry="r_find_end_node"),
         bounded="<= 3 nodes with symbolic first/last end frames and entry flags, no word ending in the last frame"),
]
NATIVE = [
    dict(name="e2e_invariants", source="native/e2e_invariants.c", repo_sources="ALL_EXCEPT:", cflags=["-w", "-fsanitize=address"],
         args={"quick": ["C11"], "thorough": ["C11"]}, exhaustive=False,
         bound="end-to-end invariants of this property on ~12 real decodes (bundled en-us / fr-fr models; goforward recordings with JSGF grammar, FSG file and forced-alignment text; one call, 2048-sample blocks with partial results, float32; digital silence; white noise) under AddressSanitizer -- a safety net under the contracts, not a proof"),
]
ASSUMPTIONS = [
    "element allocators hand out fresh zeroed objects (stub)",
    "node lists of <= 3 nodes (linked lists cannot carry loop contracts in CBMC)",
]
HAND_LEMMAS = ["acyclicity: every lattice_link call of fsg_search_lattice joins src to dest with dest->sf == ef + 1 > src->sf (NOT under contract here), so start frames strictly increase along links"]
NOT_COVERED = ["the link-building loops of fsg_search_lattice (time adjacency t -> t+1, grammar adjacency of linked words)", "find_start_node, the multi-candidate branch of find_end_node, unreachable-node removal", "first-best path contained in the lattice", "single start / end node", "the items above are NOT under contract; on real decodes they are exercised only by the bounded native run e2e_invariants (grammar adjacency of linked words is NOT checked there either) -- never counted as proved"]
CLAIM = dict(
    text="Local facts only: asking for the lattice again over the same number of frames returns the cached object and touches nothing (proved, empty frame); node identity is the full key (start frame, word, grammar state): new_node never duplicates a key, a differing grammar state gives a distinct node, an existing node only widens its end-frame range and keeps its best exit score; lattice_link keeps one link per ordered node pair with the best score in both forward and reverse lists (bounded: <= 3 nodes); when no word ends in the last frame the end node chosen is the node with entries that exits last (bounded). Global well-formedness (acyclic, single start/end, every node on a path, grammar paths) is NOT decided.",
    note="cache identity proof + bounded node/link checks; link-building loops, start/end node selection, reachability pruning not covered; trusted: CBMC 6.11; end-to-end invariants on ~12 real decodes by a bounded native run (native/e2e_invariants.c), never counted as proved",
    technique="CBMC function contract (goto-instrument --dfcc) for the cache clause; CBMC bounded unwinding with unwinding assertions for the list code; plus a bounded native run of the property's end-to-end invariants on real decodes (safety net, not proof)")
