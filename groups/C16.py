# C16 -- dictionary additions (src/dict.c, decoder_add_word)
H = "harness/C16_dict.c"
NB = ["s3file_map_file", "s3file_free", "s3file_nextline", "s3file_nextword", "s3file_copy_nextword", "s3file_rewind", "hash_table_new", "hash_table_free", "bin_mdef_ciphone_id",
      "bin_mdef_ciphone_str", "bin_mdef_retain", "bin_mdef_free", "config_str", "config_bool", "hash_table_lookup", "strcmp", "strlen", "strncmp", "ssw_memmove", "str2words", "sprintf", "hash_table_empty", "hash_table_tolist", "glist_free", "fprintf", "fopen", "fclose", "hash_table_iter", "hash_table_iter_next"]
HR = "harness/C16_dict_r.c"
def R(entry):
    return {"name": entry[2:] + "_replay", "harness": HR, "entry": entry, "native_replay": True, "canary": False, "allow_no_body": NB, "unwind": 8,
            "native_sources": "ALL", "native_exclude": ["dict.c"]}
GROUPS = [
    dict(name="dict_add_word", harness=HR, entry="r_dict_add_word", allow_no_body=NB, unwind=8, replay=R("r_dict_add_word"),
         bounded="dictionary of <= 3 existing words (4 slots, no reallocation), pronunciation <= 3 phones; hash table as an executable map stub at the touched keys"),
    dict(name="dict_word2basestr_contract", harness="harness/C16_basestr.c", enforce="dict_word2basestr", replace=["ssw_strlen"], loop_contracts=True, loops=["word2basestr.scan"], min_loop_steps=1,
         min_postconditions=6, allow_no_body=["*"]),
    dict(name="dict_word2basestr", harness=HR, entry="r_word2basestr", allow_no_body=NB, unwind=8, replay=R("r_word2basestr"),
         bounded="strings of length <= 5 with symbolic content"),
]
GROUPS += [
    dict(name="decoder_add_word_parser", harness="harness/C16_decoder_add_word.c", entry="r_decoder_add_word", unwind=5, defines=["PLEN=3"], canary=True,
         allow_no_body=["*"], bounded="phone strings of <= 3 characters with symbolic content (every write of a phone id must stay inside the id buffer)",
         replay={"name": "decoder_add_word_replay", "harness": "harness/C16_decoder_add_word.c", "entry": "r_decoder_add_word", "native_replay": True, "canary": False,
                 "allow_no_body": ["*"], "unwind": 5, "defines": ["PLEN=3"], "native_sources": "ALL", "native_exclude": ["decoder.c", "strfuncs.c"]}),
]
OLD_GROUPS = [
    dict(name="dict_add_word", harness=H, enforce="dict_add_word", defines=["SSW_NO_MEM_STUBS", "DICT_MAXW=3"],
         replace=["hash_table_lookup_int32", "hash_table_enter", "__ckd_salloc__", "dict_word2basestr", "ssw_memcpy"], allow_no_body=NB, min_postconditions=7),
]

NATIVE = [
    dict(name="dict2pid_add_enum", source="native/dict2pid_add_enum.c", repo_sources="ALL_EXCEPT:", cflags=["-w", "-fsanitize=address"],
         args={"quick": [], "thorough": ["thorough"]}, exhaustive=False,
         bound="40 random dictionary histories (thorough 200) x 40 words of 1..5 phones over 4..7 real phones of the bundled en-us model: after every dict_add_word + dict2pid_add_word the cross-word triphone tables "
               "serving the new word and every earlier word are compared with a dict2pid built from scratch over the same words"),
]
ASSUMPTIONS = [
    "the word hash table is an executable map stub observed at the keys one call touches (its map behaviour is what C20 checks on the real table)",
    "bin_mdef_ciphone_id, dict2pid_add_word are stubs in the parser harness; search re-initialisation is not covered",
    "table growth (ckd_realloc keeping contents) is cut from the bounded harness",
    "dict_word2basestr: strlen is routed to ssw_strlen with an ASSUMED contract (returns the ghost length at which the word is NUL-terminated); words <= 2000 bytes",
]
HAND_LEMMAS = []
NOT_COVERED = ["dict2pid_add_word is NOT under contract: decided only by the bounded native differential run dict2pid_add_enum (random histories over small phone alphabets, compared with dict2pid_build from scratch; silence / filler phones inside pronunciations excluded)", "use of the new word in grammars / alignment", "dict_read_s3file", "unbounded word / phone-string lengths"]
LEVEL = "model_checking"   # one unbounded contract proof (dict_word2basestr); the clauses on dict_add_word / dict2pid_add_word are bounded: CBMC bounded runs with unwinding assertions + a native differential run
CLAIM = dict(
    level="model_checking",
    text="dict_word2basestr (which decides whether a spelling is a numbered alternate and of which base word) is PROVED with a loop contract for words of any length <= 2000 bytes: a trailing (...) is cut at its last opening parenthesis after position 0, every other character keeps its value, and a refusal (-1) leaves the word untouched and is justified. dict_add_word is checked by CBMC on the real function over every dictionary of <= 3 existing words with symbolic alt/base links, for plain, alternate and empty spellings, present/absent base word and duplicate: success gives the next id, the given pronunciation and the head-of-chain link, every existing entry is unchanged (only the base word's alt link may change), and a rejected addition changes nothing. decoder_add_word's phone parser is checked on every phone string of <= 3 characters: every phone-id write stays inside its buffer, unknown phones, empty words and empty pronunciations are rejected. Bounded (labelled so). The cross-word triphone tables that make an added word usable by the search (dict2pid_add_word) are compared, for 1 600 additions in random dictionary histories over small phone alphabets of the real en-us model, with a dict2pid built from scratch over the same words (bounded stand-in, not proof).",
    note="bounded harnesses (CBMC unwinding with unwinding assertions), hash table as a map stub; dict2pid_add_word by a bounded native differential run against dict2pid_build (not proof); search re-initialisation not covered; three genuine defects found here were fixed in /repo (known_findings.txt)",
    technique="CBMC bounded model checking of the real functions with unwinding assertions over harness-built dictionaries (bounded stand-in; a DFCC contract version ran out of memory); counterexamples replayed natively under ASan; bounded native differential run for dict2pid_add_word")
