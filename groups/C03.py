# C03 -- segmentation tiles the utterance and agrees with the score
H = "harness/C01_fsg_search.c"
GROUPS = [
    dict(name="fsg_seg_bp2itor", harness=H, enforce="fsg_seg_bp2itor", replace=["fsg_history_entry_get"], min_postconditions=6),
    dict(name="search_module_forward", harness="harness/C03_frames.c", enforce="search_module_forward", replace=["acmod_advance"], defines=["VERIF_ENFORCE_FORWARD"],
         loop_contracts=True, loops=["search_module_forward.frames"], allow_no_body=["*"], min_postconditions=2),
    dict(name="decoder_process_int16_count", harness="harness/C03_frames.c", entry="h_decoder_process_int16", enforce="decoder_process_int16",
         replace=["search_module_forward", "acmod_process_raw", "acmod_set_grow"], loop_contracts=True, loops=["decoder_process_int16.chunks"], allow_no_body=["*"], min_postconditions=2,
         drop_flags=["--signed-overflow-check"], flags=["--no-signed-overflow-check"]),
    dict(name="decoder_process_float32_count", harness="harness/C03_frames.c", entry="h_decoder_process_float32", enforce="decoder_process_float32",
         replace=["search_module_forward", "acmod_process_float32", "acmod_set_grow"], loop_contracts=True, loops=["decoder_process_float32.chunks"], allow_no_body=["*"], min_postconditions=2,
         drop_flags=["--signed-overflow-check"], flags=["--no-signed-overflow-check"]),
]

NATIVE = [
    dict(name="e2e_invariants", source="native/e2e_invariants.c", repo_sources="ALL_EXCEPT:", cflags=["-w", "-fsanitize=address"],
         args={"quick": ["C03"], "thorough": ["C03"]}, exhaustive=False,
         bound="end-to-end invariants of this property on ~12 real decodes (bundled en-us / fr-fr models; goforward recordings with JSGF grammar, FSG file and forced-alignment text; one call, 2048-sample blocks with partial results, float32; digital silence; white noise) under AddressSanitizer -- a safety net under the contracts, not a proof"),
]
ASSUMPTIONS = [
    "history table seen through the ghost-cell view (assumed accessor contract, element invariant as in C01)",
    "frame monotonicity entry(pred).frame <= entry.frame and the score range [-0x30000000, 0x30000000] are preconditions of fsg_seg_bp2itor (producer-side invariants, not proved here)",
    "search_module_forward: the search step is a stub reached through the v-table that counts itself (ghost verif_steps); acmod_advance is replaced by its contract, which C07 proves",
    "decoder_process_int16: acmod_process_raw and acmod_set_grow are assumed contracts; search_module_forward is replaced by its summary (returns the frames it searched and adds them to the ghost total), whose relation to the enforced contract (ret == frames queued, all searched) is by inspection; signed overflow of the running total (2^31 frames) is not checked",
]
HAND_LEMMAS = [
    "tiling: consecutive segments are hist[i] = pred(hist[i+1]); from the per-segment postcondition sf == pred.frame + 1 (clamped to ef for zero-length null arcs) and ef == frame, segment i+1 starts on the frame after segment i ends; the first has pred 0 (frame -1) hence sf == 0",
    "telescoping: ascr + lscr == score - pred.score per segment sums to entry(last).score - entry(0).score == the score find_exit reports (entry(0).score == 0)",
    "frames searched == frames the front end produced: search_module_forward searches every queued frame exactly once (proved), decoder_process_int16 returns the sum over its rounds (proved); that the queue receives every front-end frame is the acmod ring discipline (C07, reader side only)",
]
NOT_COVERED = ["fsg_search_seg_iter backtrace loop (order of hist[])", "decoder_end_utt's final forward", "hypothesis string vs. segment words", "front-end frame count (C06)", "the items above are NOT under contract; on real decodes they are exercised only by the bounded native run e2e_invariants (tiling, hypothesis = segment words, score sum, ~25 decodes) -- never counted as proved"]
CLAIM = dict(
    text="fsg_seg_bp2itor, the function that turns one history entry into a segment, is proved for all entries (loop-free, full domain): ef is the entry's frame, sf is the frame after its predecessor's (a zero-length marker for null arcs), lscr is the shifted arc probability and ascr + lscr equals the path-score difference to the predecessor. Frame counters: search_module_forward is proved (loop invariant + termination) to search every queued frame exactly once, in order, advancing the decoder's frame count by the number it returns; decoder_process_int16 and decoder_process_float32 are proved to return the total searched over all their internal rounds. Tiling and score additivity of a whole segmentation follow by two hand lemmas (induction along the backtrace).",
    note="assumed: ghost-cell history view, frame monotonicity and score range as preconditions, acmod_process_raw; hand lemmas for tiling/telescoping; float32 entry point and seg_iter loop not covered; end-to-end invariants on ~12 real decodes by a bounded native run (native/e2e_invariants.c), never counted as proved",
    technique="CBMC function + loop contracts enforced with goto-instrument --dfcc, callees replaced by contracts, ghost counters; plus a bounded native run of the property's end-to-end invariants on real decodes (safety net, not proof)")
