# C03 -- segmentation tiles the utterance and agrees with the score
H = "harness/C01_fsg_search.c"
GROUPS = [
    dict(name="fsg_seg_bp2itor", harness=H, enforce="fsg_seg_bp2itor", replace=["fsg_history_entry_get"], min_postconditions=6),
]

ASSUMPTIONS = [
    "history table seen through the ghost-cell view (assumed accessor contract, element invariant as in C01)",
    "frame monotonicity entry(pred).frame <= entry.frame and the score range [-0x30000000, 0x30000000] are preconditions of fsg_seg_bp2itor (producer-side invariants, not proved here)",
]
HAND_LEMMAS = [
    "tiling: consecutive segments are hist[i] = pred(hist[i+1]); from the per-segment postcondition sf == pred.frame + 1 (clamped to ef for zero-length null arcs) and ef == frame, segment i+1 starts on the frame after segment i ends; the first has pred 0 (frame -1) hence sf == 0",
    "telescoping: ascr + lscr == score - pred.score per segment sums to entry(last).score - entry(0).score == the score find_exit reports (entry(0).score == 0)",
]
NOT_COVERED = ["fsg_search_seg_iter backtrace loop (order of hist[])", "frame counters in decoder_process_* / search_module_forward (seeded change C03_B is not detected)", "hypothesis string vs. segment words"]
CLAIM = dict(
    text="fsg_seg_bp2itor, the function that turns one history entry into a segment, is proved for all entries (loop-free, full domain): ef is the entry's frame, sf is the frame after its predecessor's (a zero-length marker for null arcs), lscr is the shifted arc probability and ascr + lscr equals the path-score difference to the predecessor. Tiling and score additivity of a whole segmentation follow by two hand lemmas (induction along the backtrace); frame-count bookkeeping in decoder.c is not covered.",
    note="assumed: ghost-cell history view, frame monotonicity and score range as preconditions; hand lemmas for tiling/telescoping; decoder frame counters not covered",
    technique="CBMC function contract enforced with goto-instrument --dfcc (loop-free, full domain), callee replaced by contract")
