# C20 -- hash table as a map (src/hash_table.c)
H = "harness/C20_hash.c"
SRC = "src/hash_table.c"
NB = ["printf", "glist_add_ptr", "glist_free", "prime_sieve"]
def R(entry, **kw):
    d = {"name": entry[2:] + "_replay", "harness": H, "entry": entry, "native_replay": True, "canary": False,
         "native_sources": ["src/ckd_alloc.c", "src/err.c", "src/glist.c"], "allow_no_body": NB}
    d.update(kw)
    return d
GROUPS = [
    dict(name="key2hash", harness=H, enforce="key2hash", loop_contracts=True, loops=["key2hash.nocase", "key2hash.case"], min_loop_steps=2,
         drop_flags=["--signed-overflow-check"], flags=["--no-undefined-shift-check", "--no-signed-overflow-check"], allow_no_body=NB),
    dict(name="keycmp_case", harness=H, enforce="keycmp_case", loop_contracts=True, loops=["keycmp_case.bytes"], allow_no_body=NB),
    dict(name="keycmp_nocase", harness=H, enforce="keycmp_nocase", loop_contracts=True, loops=["keycmp_nocase.bytes"], allow_no_body=NB),
    dict(name="makekey", backends=[[], ["--sat-solver", "cadical"]], harness=H, enforce="makekey", loop_contracts=True, loops=["makekey.bytes"], allow_no_body=NB, min_postconditions=2),
    dict(name="keycmp_exact", harness=H, entry="r_keycmp_exact", allow_no_body=NB, replay=R("r_keycmp_exact"),
         bounded="key length <= 2 bytes (exact equivalence with the specification of key equality)"),
    dict(name="hash_op", harness=H, entry="r_hash_op", allow_no_body=NB, replay=R("r_hash_op"), unwind=6,
         bounded="one bucket chain of <= 3 entries (head + 2 nodes), keys <= 2 symbolic bytes, one operation from any well-formed state"),
    dict(name="hash_op_4", harness=H, entry="r_hash_op", defines=["MAXCHAIN=4"], allow_no_body=NB, replay=R("r_hash_op", defines=["MAXCHAIN=4"]), unwind=7,
         tiers=("thorough",), bounded="one bucket chain of <= 4 entries, keys <= 2 symbolic bytes, one operation from any well-formed state"),
    dict(name="hash_iter", harness=H, entry="r_hash_iter", allow_no_body=NB, replay=R("r_hash_iter"), unwind=8, flags=["--memory-leak-check"],
         extra_sources=["@src/glist.c"],
         bounded="table of 2 buckets, chain <= 3 entries: iterator / tolist / empty life cycles with leak check"),
    dict(name="hash_history", harness=H, entry="r_hash_history", allow_no_body=NB, replay=R("r_hash_history"), unwind=8,
         flags=["--memory-leak-check", "--no-undefined-shift-check", "--no-signed-overflow-check"],
         defines_quick=["NOPS=2"], timeout={"quick": 400, "thorough": 1500},
         bounded="2 (quick) / 3 (thorough) public-API operations (enter/replace/delete, one-character string keys, real key2hash, table size 2) from the empty table"),
]

ASSUMPTIONS = [
    "chain functions (lookup/enter/delete/iter_next/tolist/empty) are checked on harness-built buckets with a stated bound on chain length and key length: bounded, not proof (CBMC has no inductive predicates for unbounded linked lists)",
    "the step from 'one operation from any well-formed state preserves the map view and the representation invariant' to 'any operation history' is a hand induction",
    "key2hash: left shifts of negative / large promoted char values (bytes >= 0x80) are undefined behaviour in ISO C; the shift-overflow checks are switched off for the groups that run key2hash (two's-complement result assumed, as every supported compiler produces) -- recorded as an observation, not a property violation",
    "binary keys in a case-insensitive table (hash of the byte image is case sensitive, comparison is not) are not covered",
    "allocation wrappers and logging are executable stubs (ssw_stubs.h): calloc/malloc/free of the C library, never NULL",
]
HAND_LEMMAS = ["induction over the operation history: every public operation maps a well-formed table with abstract map M to a well-formed table with the map the property prescribes (checked per operation, bounded)"]
NOT_COVERED = ["unbounded chains", "hash_table_new/prime_size", "hash_table_display", "binary keys + case-insensitive mode"]
CLAIM = dict(
    text="Array-loop functions of the hash table (key2hash, keycmp_case, keycmp_nocase, makekey) are proved against contracts with loop invariants for keys of any length up to 2000 bytes (in-bounds reads, termination, bucket index < size, equal-at-witness). The map semantics of lookup/enter/replace/delete, iteration, list export and empty are checked by CBMC on the real functions over every bucket shape up to a stated chain bound with symbolic keys, in both case modes, including head/middle/tail deletions and a neighbouring bucket (bounded, labelled so).",
    note="bounded in chain length (<=3 quick, <=4 thorough) and key length (<=2) for the chain functions; history induction is a hand lemma; UB shifts in key2hash for bytes >= 0x80 not checked; trusted: CBMC 6.11, stubs for ckd_alloc/err",
    technique="CBMC function + loop contracts (goto-instrument --dfcc) for array loops; CBMC bounded unwinding with unwinding assertions over harness-built chains for list code")
