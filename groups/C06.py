# C06 -- front-end window schedule is independent of chunking, output limits and encoding (src/fe_interface.c)
H = "harness/C06_fe.c"
def R(defs):
    return {"name": "fe_chunking_replay", "harness": H, "entry": "r_fe_chunking", "defines": defs, "native_replay": True, "canary": False, "allow_no_body": ["*"], "unwind": 14,
            "native_sources": "ALL", "native_exclude": ["fe_interface.c"]}
def C(name, chunks, tiers=("quick", "thorough")):
    d = ["FS=5", "SH=2", "NS=11", "NCHUNK=3", "CHUNKS=" + chunks]
    # MiniSat first for these groups: with CaDiCaL some obligations come back with status ERROR under the memory limit
    return dict(name=name, harness=H, entry="r_fe_chunking", defines=d, allow_no_body=["*"], unwind=14, replay=R(d), tiers=tiers, backends=[[], ["--sat-solver", "cadical"]],
                unwindset="ssw_memcpy.0:24,ssw_memmove.0:24,ssw_memmove.1:24", timeout={"quick": 600, "thorough": 1800},
                bounded="geometry 5 / 2, 11 concrete distinct samples, chunk sizes (%s), symbolic output limit 1..3 per call, int16 and float32" % chunks)
HC = "harness/C06_fe_contracts.c"
# fe_chunking_5_2_3chunks / fe_chunking_4_2 / fe_chunking_7_3 (symbolic chunk sizes) exhaust the 20 GB memory limit in CBMC: tier "probe";
# the same spaces are covered exhaustively by the native enumerations fe_chunking_enum_5_2 / _7_3 (bounded stand-ins)
GROUPS = [
    dict(name="output_frame_count", harness=HC, enforce="output_frame_count", allow_no_body=["*"], min_postconditions=3, defines=["SSW_NO_MEM_STUBS"]),
    dict(name="overflow_append", tiers=("probe",), harness=HC, enforce="overflow_append", replace=["ssw_memcpy"], allow_no_body=["*"], min_postconditions=3, defines=["SSW_NO_MEM_STUBS"], unwind=3),
    C("fe_chunks_7_0_4", "7,0,4"), C("fe_chunks_6_5_0", "6,5,0"), C("fe_chunks_3_4_4", "3,4,4"), C("fe_chunks_9_1_1", "9,1,1", tiers=("thorough",)), C("fe_chunks_1_8_2", "1,8,2", tiers=("thorough",)),
    dict(name="fe_chunking_5_2", tiers=("probe",), harness=H, entry="r_fe_chunking", defines=["FS=5", "SH=2", "NS=9", "NCHUNK=2"], allow_no_body=["*"], unwind=12, replay=R(["FS=5", "SH=2", "NS=9", "NCHUNK=2"]),
         unwindset="ssw_memcpy.0:24,ssw_memmove.0:24,ssw_memmove.1:24", backends=[["--sat-solver", "cadical"]], timeout={"quick": 900, "thorough": 1800},
         bounded="geometry frame_size 5 / frame_shift 2 (size > 2*shift, like the shipped 410/160), 9 concrete distinct samples, 2 chunks of symbolic sizes, symbolic output limit 1..3 per call, int16 and float32 input"),
    dict(name="fe_chunking_5_2_3chunks", harness=H, entry="r_fe_chunking", defines=["FS=5", "SH=2", "NS=11", "NCHUNK=3"], allow_no_body=["*"], unwind=14, replay=R(["FS=5", "SH=2", "NS=11", "NCHUNK=3"]),
         unwindset="ssw_memcpy.0:24,ssw_memmove.0:24,ssw_memmove.1:24", backends=[["--sat-solver", "cadical"]], timeout={"quick": 900, "thorough": 2400}, tiers=("probe",),
         bounded="geometry 5 / 2, 11 samples, 3 chunks"),
    dict(name="fe_chunking_4_2", harness=H, entry="r_fe_chunking", defines=["FS=4", "SH=2", "NS=10"], allow_no_body=["*"], unwind=14, replay=R(["FS=4", "SH=2", "NS=10"]), tiers=("probe",), unwindset="ssw_memcpy.0:24,ssw_memmove.0:24,ssw_memmove.1:24", backends=[["--sat-solver", "cadical"]], timeout={"quick": 900, "thorough": 2400},
         bounded="geometry 4 / 2, 10 samples"),
    dict(name="fe_chunking_7_3", harness=H, entry="r_fe_chunking", defines=["FS=7", "SH=3", "NS=14"], allow_no_body=["*"], unwind=18, replay=R(["FS=7", "SH=3", "NS=14"]), tiers=("probe",), unwindset="ssw_memcpy.0:32,ssw_memmove.0:32,ssw_memmove.1:32", backends=[["--sat-solver", "cadical"]], timeout={"quick": 900, "thorough": 2400},
         bounded="geometry 7 / 3, 14 samples"),
]

NATIVE = [
    dict(name="fe_chunking_enum_5_2", source="native/fe_chunking_enum.c", repo_sources="ALL_EXCEPT:fe_interface.c", cflags=["-w", "-DSSW_REPLAY", "-DSOUNDSWALLOWER_VERIF", "-DFS=5", "-DSH=2", "-DNS=11", "-I/verif/harness"],
         args={"quick": [], "thorough": []}, exhaustive=True,
         bound="geometry 5/2, 11 samples: EVERY split into <= 3 chunks x EVERY output-limit pattern in {1,2,3}^6 x both encodings (459 108 runs of the real fe_process/fe_end)"),
    dict(name="fe_chunking_enum_7_3", source="native/fe_chunking_enum.c", repo_sources="ALL_EXCEPT:fe_interface.c", cflags=["-w", "-DSSW_REPLAY", "-DSOUNDSWALLOWER_VERIF", "-DFS=7", "-DSH=3", "-DNS=16", "-I/verif/harness"],
         args={"quick": [], "thorough": []}, exhaustive=True, tiers=("thorough",),
         bound="geometry 7/3, 16 samples, same enumeration"),
]

ASSUMPTIONS = [
    "the DSP stage (windowing, FFT, mel filters, DCT) is replaced in the chunking harness by a stub that maintains the analysis window exactly as fe_read_frame_* / fe_shift_frame_* do and records it per frame: bit-identity of cepstra follows if the real DSP functions read only the window, pre-emphasis history and constants (argued, not proved); dither off",
    "geometry is concrete per run: contracts on the shipped 410/160, chunking harness on 5/2 (size > 2*shift like the shipped one); chunk sizes concrete per CBMC run, exhaustive in the native enumeration",
    "memcpy replaced by a bounds-only contract in overflow_append (integer level)",
]
HAND_LEMMAS = ["int16 and float32 input give the same window values: int16_float_exact (C18) over all 65 536 sample values, plus the chunking harness runs both encodings"]
NOT_COVERED = ["the DSP functions themselves", "overflow_append as a DFCC contract (written, tier probe: three obligations fail for reasons not yet understood -- no counterexample could be extracted within the time limit -- so it is not claimed)", "fe_process as a DFCC contract (the frame loop and overflow helpers are checked by bounded runs and native enumeration instead)", "dither", "sample rates / window lengths other than the two geometries"]
CLAIM = dict(
    text="Sample bookkeeping of the front end: output_frame_count is proved on the shipped geometry 410/160 (the frame estimate depends only on the number of samples buffered plus offered, within one frame of 1 + (n - size)/shift). The window schedule -- frame k is computed from samples k*shift .. k*shift+size-1 whatever the chunking, the per-call output limits and the encoding, every sample consumed exactly once, trailing partial frame zero padded -- is checked on the real fe_process/fe_end and overflow helpers (DSP stage stubbed by a window recorder) by CBMC for fixed chunk patterns with symbolic limits (bounded) and by exhaustive native enumeration of all 459 108 chunkings x limit patterns x encodings of an 11-sample signal (bounded). One genuine deviation found (known finding): one frame fewer when the stream ends on a window boundary after an output-limited call.",
    note="DSP stage stubbed (determinism of the real DSP argued); small geometry for the schedule; known finding listed in known_findings.txt; trusted: CBMC 6.11, host compiler for the native enumeration",
    technique="CBMC function contracts (goto-instrument --dfcc) for the loop-free helpers; CBMC bounded runs and native exhaustive enumeration of the constructive harness as bounded stand-ins for fe_process")
