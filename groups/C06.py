# C06 -- front-end window schedule is independent of chunking, output limits and encoding (src/fe_interface.c)
H = "harness/C06_fe.c"
def R(defs):
    return {"name": "fe_chunking_replay", "harness": H, "entry": "r_fe_chunking", "defines": defs, "native_replay": True, "canary": False, "allow_no_body": ["*"], "unwind": 14,
            "native_sources": "ALL", "native_exclude": ["fe_interface.c"]}
GROUPS = [
    dict(name="fe_chunking_5_2", harness=H, entry="r_fe_chunking", defines=["FS=5", "SH=2", "NS=9", "NCHUNK=2"], allow_no_body=["*"], unwind=12, replay=R(["FS=5", "SH=2", "NS=9", "NCHUNK=2"]),
         unwindset="ssw_memcpy.0:24,ssw_memmove.0:24,ssw_memmove.1:24", backends=[["--sat-solver", "cadical"]], timeout={"quick": 900, "thorough": 1800},
         bounded="geometry frame_size 5 / frame_shift 2 (size > 2*shift, like the shipped 410/160), 9 concrete distinct samples, 2 chunks of symbolic sizes, symbolic output limit 1..3 per call, int16 and float32 input"),
    dict(name="fe_chunking_5_2_3chunks", harness=H, entry="r_fe_chunking", defines=["FS=5", "SH=2", "NS=11", "NCHUNK=3"], allow_no_body=["*"], unwind=14, replay=R(["FS=5", "SH=2", "NS=11", "NCHUNK=3"]),
         unwindset="ssw_memcpy.0:24,ssw_memmove.0:24,ssw_memmove.1:24", backends=[["--sat-solver", "cadical"]], timeout={"quick": 900, "thorough": 2400}, tiers=("thorough",),
         bounded="geometry 5 / 2, 11 samples, 3 chunks"),
    dict(name="fe_chunking_4_2", harness=H, entry="r_fe_chunking", defines=["FS=4", "SH=2", "NS=10"], allow_no_body=["*"], unwind=14, replay=R(["FS=4", "SH=2", "NS=10"]), tiers=("thorough",), unwindset="ssw_memcpy.0:24,ssw_memmove.0:24,ssw_memmove.1:24", backends=[["--sat-solver", "cadical"]], timeout={"quick": 900, "thorough": 2400},
         bounded="geometry 4 / 2, 10 samples"),
    dict(name="fe_chunking_7_3", harness=H, entry="r_fe_chunking", defines=["FS=7", "SH=3", "NS=14"], allow_no_body=["*"], unwind=18, replay=R(["FS=7", "SH=3", "NS=14"]), tiers=("thorough",), unwindset="ssw_memcpy.0:32,ssw_memmove.0:32,ssw_memmove.1:32", backends=[["--sat-solver", "cadical"]], timeout={"quick": 900, "thorough": 2400},
         bounded="geometry 7 / 3, 14 samples"),
]
