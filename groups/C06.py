# C06 -- front-end window schedule is independent of chunking, output limits and encoding (src/fe_interface.c)
H = "harness/C06_fe.c"
def R(defs):
    return {"name": "fe_chunking_replay", "harness": H, "entry": "r_fe_chunking", "defines": defs, "native_replay": True, "canary": False, "allow_no_body": ["*"], "unwind": 14,
            "native_sources": "ALL", "native_exclude": ["fe_interface.c"]}
GROUPS = [
    dict(name="fe_chunking_5_2", harness=H, entry="r_fe_chunking", defines=["FS=5", "SH=2", "NS=11"], allow_no_body=["*"], unwind=14, replay=R(["FS=5", "SH=2", "NS=11"]),
         bounded="geometry frame_size 5 / frame_shift 2 (size > 2*shift, like the shipped 410/160), 11 concrete distinct samples, <= 3 chunks of symbolic sizes, symbolic output limit 1..3 per call, int16 and float32 input"),
    dict(name="fe_chunking_4_2", harness=H, entry="r_fe_chunking", defines=["FS=4", "SH=2", "NS=10"], allow_no_body=["*"], unwind=14, replay=R(["FS=4", "SH=2", "NS=10"]), tiers=("thorough",),
         bounded="geometry 4 / 2, 10 samples"),
    dict(name="fe_chunking_7_3", harness=H, entry="r_fe_chunking", defines=["FS=7", "SH=3", "NS=14"], allow_no_body=["*"], unwind=18, replay=R(["FS=7", "SH=3", "NS=14"]), tiers=("thorough",),
         bounded="geometry 7 / 3, 14 samples"),
]
