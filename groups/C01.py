# C01 -- results are sentences of the active grammar (history table invariant: consumer side)
H = "harness/C01_fsg_search.c"
GROUPS = [
    dict(name="fsg_search_null_prop", harness="harness/C01_producer.c", enforce="fsg_search_null_prop", loop_contracts=True, loops=["null_prop.entries", "null_prop.arcs"], min_loop_steps=2,
         replace=["fsg_history_n_entries", "fsg_history_entry_get", "fsg_model_arcs", "fsg_arciter_next", "fsg_arciter_get", "fsg_history_entry_add"], allow_no_body=["*"], min_postconditions=1, unwind=18),
    dict(name="fsg_search_find_exit", harness=H, enforce="fsg_search_find_exit", replace=["fsg_history_n_entries", "fsg_history_entry_get"],
         loop_contracts=True, loops=["find_exit.scan", "find_exit.best"], min_loop_steps=2, min_postconditions=5),
    dict(name="fsg_search_hyp_noexit", harness=H, enforce="fsg_search_hyp", defines=["VERIF_CASE_NO_EXIT"], min_postconditions=2,
         replace=["fsg_search_find_exit", "fsg_history_entry_get"],
         allow_no_body=["fsg_search_lattice", "lattice_bestpath", "lattice_posterior", "lattice_hyp", "dict_wordid", "bitvec_is_set"]),
]

import importlib.util, os
_spec = importlib.util.spec_from_file_location("g13", os.path.join(os.path.dirname(os.path.abspath(__file__)), "C13.py"))
_c13 = importlib.util.module_from_spec(_spec); _spec.loader.exec_module(_c13)
# grammar augmentation by the search (alternate pronunciations) must keep arcs between the same states: shared with C13
GROUPS += [dict(g) for g in _c13.GROUPS if g["name"].startswith("add_alt_2_")]
W = "harness/C01_wordarcs.c"
WR = ["fsg_history_entry_add", "dict_wordid", "fsg_pnode_add_all_ctxt", "hmm_enter", "glist_add_ptr", "fsg_history_n_entries", "fsg_history_entry_get"]
GROUPS += [
    dict(name="fsg_search_pnode_exit", harness=W, enforce="fsg_search_pnode_exit", min_postconditions=6,
         replace=WR, allow_no_body=["*"]),
    dict(name="fsg_pnode_add_all_ctxt", harness="harness/C01_lextree_ctxt.c", enforce="fsg_pnode_add_all_ctxt", min_postconditions=1, allow_no_body=["*"], unwind=6,
         bounded=None),
    dict(name="fsg_search_pnode_trans", harness=W, enforce="fsg_search_pnode_trans", min_postconditions=2, loop_contracts=True, loops=["pnode_trans.children"], min_loop_steps=1,
         replace=WR, allow_no_body=["*"]),
    dict(name="fsg_search_hmm_prune_prop", harness=W, enforce="fsg_search_hmm_prune_prop", min_postconditions=1, loop_contracts=True, loops=["prune_prop.active"], min_loop_steps=1, unwind=40,
         replace=WR + ["fsg_search_pnode_trans", "fsg_search_pnode_exit"], allow_no_body=["*"]),
    dict(name="fsg_search_word_trans", harness=W, enforce="fsg_search_word_trans", min_postconditions=1, loop_contracts=True, loops=["word_trans.entries", "word_trans.roots"], min_loop_steps=2, unwind=24,
         outside_property=[r"arithmetic overflow on signed shl in 1 << \((lc|rc) & 0x1F\)"],
         replace=WR, allow_no_body=["*"]),
]
# the history-source invariant is carried through an HMM evaluation by the back-pointer clauses of the Viterbi step contracts (shared with C02)
_spec2 = importlib.util.spec_from_file_location("g02", os.path.join(os.path.dirname(os.path.abspath(__file__)), "C02.py"))
_c02 = importlib.util.module_from_spec(_spec2); _spec2.loader.exec_module(_c02)
GROUPS += [dict(g) for g in _c02.GROUPS if g["name"] in ("hmm_vit_eval_3st_lr", "hmm_vit_eval_3st_lr_mpx", "hmm_enter", "hmm_vit_eval_dispatch", "hmm_vit_eval_dispatch_mpx", "hmm_clear")]
ENFORCED_ELSEWHERE = {}
NATIVE = [
    dict(name="e2e_invariants", source="native/e2e_invariants.c", repo_sources="ALL_EXCEPT:", cflags=["-w", "-fsanitize=address"],
         args={"quick": ["C01"], "thorough": ["C01"]}, exhaustive=False,
         bound="end-to-end invariants of this property on ~12 real decodes (bundled en-us / fr-fr models; goforward recordings with JSGF grammar, FSG file and forced-alignment text; one call, 2048-sample blocks with partial results, float32; digital silence; white noise) under AddressSanitizer -- a safety net under the contracts, not a proof"),
]
ASSUMPTIONS = [
    "history table seen through the ghost-cell view (contracts/fsg_hist.ghost.h, producer side contracts/fsg_hist_prod.ghost.h): fsg_history_entry_get / fsg_history_n_entries are ASSUMED contracts; the element invariant (only entry 0 has no link, pred < id, frames >= -1, link.from_state == dest(entry(pred))) is what the producer side establishes. Producer side under contract: fsg_search_null_prop (the invariant is the precondition of fsg_history_entry_add, proved at its call site). NOT under contract: fsg_search_word_trans / pnode_trans / pnode_exit (word arcs through the lextree), fsg_history_entry_add / end_frame bodies",
    "WORD ARCS (harness/C01_wordarcs.c, contracts/fsg_wordarc.ghost.h): the invariant HIST_SRC -- every history id held in an HMM of the lextree of grammar state S names an entry whose arc enters S -- is carried by contracts on the real fsg_search_word_trans (establishes it at a root), hmm_vit_eval_3st_lr(_mpx) (back-pointer slots are only copied inside the HMM), fsg_search_pnode_trans (child entered with the parent's exit back-pointer), fsg_search_hmm_prune_prop (call sites) and becomes, in fsg_search_pnode_exit, the path-connectivity precondition of fsg_history_entry_add. ASSUMED there: (a) lextree structure (fsg_lextree.c is not under contract): nodes on the root list of state d and their descendants belong to the lextree of d, a leaf's grammar arc leaves d -- checked on ~43 real lextrees by native/lextree_triphone_enum.c (bounded); (b) unbounded sibling / root / active lists are seen through ONE list cell that is arbitrary at every loop step subject to the loop invariant; acyclicity (termination of the chain walks) is not proved; (c) at the head of the root loop of word_trans the cell is re-instantiated by a ghost havoc + __CPROVER_assume(PCELL_OK && HIST_SRC(cell, d)): the instantiation at d of the universally quantified precondition 'every node n of the lextree of s satisfies HIST_SRC(n, s)', which has no finite requires clause; (d) in prune_prop the node pointer read from the list node's anytype_t union is re-materialised without proof (CBMC loses pointers stored in a union with a double member); (e) history entries from bpidx_start on belong to the current frame, context phones < 128, scores in [WORST_SCORE, 0]; (f) every grammar word is in the dictionary (dict_wordid contract; fsg_search_check_dict); (g) root table of <= 4 grammar states (only indexed). HIST_SRC itself is additionally checked on the live search after every block of every streamed decode of native/e2e_invariants.c (bounded)",
    "arc iterator fsg_model_arcs / fsg_arciter_next / fsg_arciter_get: assumed contracts (yield links leaving the requested state, destination in range)",
    "ghost-cell soundness condition: the caller never reads through an entry pointer older than the most recent accessor call (true by inspection of find_exit/hyp)",
    "err_msg (logging) has no effect on program state",
    "case selection VERIF_CASE_NO_EXIT: for the 'no hypothesis' clause of fsg_search_hyp the replaced fsg_search_find_exit is restricted to the outcomes <= 0 that its own contract allows",
    "bestpath branch is compiled out by default (fsgs->bestpath == 0 is not assumed: the branch calls body-less lattice functions whose result is arbitrary; the postcondition is only claimed for the no-exit case)",
]
HAND_LEMMAS = [
    "by induction on the entry id, with the element invariant link.from_state == dest(entry(pred)) the backtrace from any entry is the label sequence of a grammar path leaving the start state; with find_exit's postcondition (final ==> to_state == final_state) it is a sentence",
]
NOT_COVERED = ["lextree construction (fsg_lextree.c: structure assumed by the word-arc contracts, checked on real lextrees by a bounded native run only)", "fsg_search_hmm_eval / fsg_search_step sequencing, fsg_history_entry_add / fsg_history_end_frame bodies as contracts (the table invariant is their callers' obligation, proved; that entry_add stores exactly the arc, frame, score, predecessor and last phone it is given, and leaves those of existing entries alone, is checked on lists of <= 2 entries by the bounded C02 group history_entry_add only; end_frame's id assignment is not checked)", "fsg_search_hyp string building and fsg_search_seg_iter backtrace loops (only their no-exit clause is under contract)", "decoder.c dispatch", "grammar augmentation beyond the bounded add_alt check (silence loops, closure)", "the items above are NOT under contract; on real decodes they are exercised only by the bounded native run e2e_invariants (FSG acceptance of hypotheses / partial results, ~25 decodes) -- never counted as proved"]
CLAIM = dict(
    text="Consumer side of 'results are sentences of the grammar': fsg_search_find_exit is proved, with loop invariants and termination, for history tables of any length: the entry it returns has a link, ends no later than the requested frame, carries the reported score and -- for a final result -- enters the grammar's final state; otherwise it returns <= 0. fsg_search_hyp is proved to return NULL and change nothing whenever no admissible exit exists. Producer side: fsg_search_null_prop is proved (two nested loop contracts, termination of the outer loop) to add only entries whose link leaves the state its predecessor entered, with the predecessor's frame and a null label -- the path-connectivity invariant as a precondition of fsg_history_entry_add. Word arcs: fsg_search_word_trans (two loop contracts: history table of any length with termination, root chain of any length), fsg_search_pnode_trans (loop contract over the sibling chain), fsg_search_hmm_prune_prop (loop contract over the active list; callees replaced by their contracts) and the loop-free fsg_search_pnode_exit are proved to carry the history-source invariant from a word's entry to its exit, where it is exactly that precondition of fsg_history_entry_add; each transition enters its target with the source score plus the target's arc weight exactly once, the source's back-pointer and the next frame, only when allowed by the beam and the phonetic context sets; a word exit adds exactly one entry carrying the leaf's grammar arc, the current frame, the exit score unchanged and the exit back-pointer. The lextree structure these contracts rely on is assumed (checked on real lextrees by a bounded native run). Grammar augmentation: alternate-pronunciation arcs added by fsg_model_add_alt join the same states as the base-word arc (bounded, 2-state grammar, real hash table).",
    note="assumed: ghost-cell / list-cell views of the history table, sibling chains and active list, lextree structure, one unproved pointer re-materialisation (anytype_t union), err_msg; not covered: hypothesis string building, lextree construction, fsg_search_step sequencing, decoder dispatch; trusted: CBMC 6.11; end-to-end invariants on ~12 real decodes by a bounded native run (native/e2e_invariants.c), never counted as proved",
    technique="CBMC function + loop contracts enforced with goto-instrument --dfcc on the real fsg_search.c / hmm.c (annotation comments injected on every run); universals via a ghost witness index; unbounded tables and lists via ghost cells; plus a bounded native run of the property's end-to-end invariants on real decodes (safety net, not proof)")
