# C01 -- results are sentences of the active grammar (history table invariant: consumer side)
H = "harness/C01_fsg_search.c"
GROUPS = [
    dict(name="fsg_search_find_exit", harness=H, enforce="fsg_search_find_exit", replace=["fsg_history_n_entries", "fsg_history_entry_get"],
         loop_contracts=True, loops=["find_exit.scan", "find_exit.best"], min_loop_steps=2, min_postconditions=5),
    dict(name="fsg_search_hyp_noexit", harness=H, enforce="fsg_search_hyp", defines=["VERIF_CASE_NO_EXIT"], min_postconditions=2,
         replace=["fsg_search_find_exit", "fsg_history_entry_get"],
         allow_no_body=["fsg_search_lattice", "lattice_bestpath", "lattice_posterior", "lattice_hyp", "dict_wordid", "bitvec_is_set"]),
]

ENFORCED_ELSEWHERE = {}
ASSUMPTIONS = [
    "history table seen through the ghost-cell view (contracts/fsg_hist.ghost.h): fsg_history_entry_get / fsg_history_n_entries are ASSUMED contracts; the element invariant (only entry 0 has no link, pred < id, frames >= -1) is what the producer side establishes -- producer side (fsg_search_null_prop/word_trans/pnode_exit, fsg_history_entry_add/end_frame) is NOT yet under contract in this check",
    "ghost-cell soundness condition: the caller never reads through an entry pointer older than the most recent accessor call (true by inspection of find_exit/hyp)",
    "err_msg (logging) has no effect on program state",
    "case selection VERIF_CASE_NO_EXIT: for the 'no hypothesis' clause of fsg_search_hyp the replaced fsg_search_find_exit is restricted to the outcomes <= 0 that its own contract allows",
    "bestpath branch is compiled out by default (fsgs->bestpath == 0 is not assumed: the branch calls body-less lattice functions whose result is arbitrary; the postcondition is only claimed for the no-exit case)",
]
HAND_LEMMAS = [
    "by induction on the entry id, with the element invariant link.from_state == dest(entry(pred)) the backtrace from any entry is the label sequence of a grammar path leaving the start state; with find_exit's postcondition (final ==> to_state == final_state) it is a sentence",
]
NOT_COVERED = ["producer side of the history invariant (search transitions, lextree construction)", "fsg_search_hyp string building and fsg_search_seg_iter backtrace loops (only their no-exit clause is under contract)", "decoder.c dispatch", "fsg_model_add_alt / grammar augmentation (the grammar the search runs on is taken as given)"]
CLAIM = dict(
    text="Consumer side of 'results are sentences of the grammar': fsg_search_find_exit is proved, with loop invariants and termination, for history tables of any length: the entry it returns has a link, ends no later than the requested frame, carries the reported score and -- for a final result -- enters the grammar's final state; otherwise it returns <= 0. fsg_search_hyp is proved to return NULL and change nothing whenever no admissible exit exists. The path-connectivity invariant of the table itself (producer side) is assumed, not proved.",
    note="assumed: ghost-cell view of the history table and its element invariant (producer side not under contract), err_msg; not covered: hypothesis string building, lextree, decoder dispatch; trusted: CBMC 6.11",
    technique="CBMC function + loop contracts enforced with goto-instrument --dfcc; universals via a ghost witness index; unbounded table via ghost cell")
