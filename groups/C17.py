# C17 -- damaged acoustic-model files (src/s3file.c layer)
H = "harness/C17_s3file.c"
NB = ["mmio_file_read", "mmio_file_unmap", "mmio_file_ptr", "mmio_file_size", "strncmp", "strlen"]
MEM = ["SSW_NO_MEM_STUBS", "S3_ELSZ=4"]
GROUPS = [
    dict(name="s3file_nextline", harness=H, enforce="s3file_nextline", loop_contracts=True, loops=["s3file_nextline.scan"], defines=MEM, allow_no_body=NB + ["ssw_memcpy", "ssw_memmove"], min_postconditions=3),
    dict(name="s3file_nextword", harness=H, enforce="s3file_nextword", loop_contracts=True, loops=["s3file_nextword.skip", "s3file_nextword.word", "s3file_nextword.trail"],
         min_loop_steps=3, defines=MEM, allow_no_body=NB + ["ssw_memcpy", "ssw_memmove"], min_postconditions=2),
    dict(name="s3file_get", harness=H, enforce="s3file_get", loop_contracts=True, replace=["ssw_memcpy", "chksum_accum"], defines=MEM + ["S3_GET_ENFORCE"], allow_no_body=NB + ["ssw_memmove"],
         loops=["swap_buf.u16", "swap_buf.u32", "swap_buf.u64"], min_loop_steps=3, min_postconditions=4),
    dict(name="chksum_accum_bounded", harness=H, enforce="chksum_accum", defines=["SSW_NO_MEM_STUBS", "S3_CHK_BOUND"], allow_no_body=NB + ["ssw_memcpy", "ssw_memmove"], unwind=9, min_postconditions=1,
         bounded="n_el <= 6 elements (loop contracts on these loops crash goto-instrument: the accumulator is a parameter)"),
    dict(name="s3file_get_1d_inl", harness=H, entry="h_s3file_get_1d", enforce="s3file_get_1d", replace=["ssw_memcpy", "chksum_accum"], loop_contracts=True, loops=["swap_buf.u16", "swap_buf.u32", "swap_buf.u64"], defines=MEM + ["S3_MAXLEN=64"], allow_no_body=NB + ["ssw_memmove"], tiers=("probe",)),
    dict(name="s3file_get_1d", tiers=("probe",), harness=H, enforce="s3file_get_1d", replace=["s3file_get"], defines=MEM + ["S3_MAXLEN=64"],
         bounded="file length <= 64 bytes (counts read from the file are arbitrary 32-bit values; symbolic-size allocations beyond that did not finish)", allow_no_body=NB + ["ssw_memcpy", "ssw_memmove"], min_postconditions=3),
    dict(name="s3file_get_2d", harness=H, enforce="s3file_get_2d", replace=["s3file_get", "s3file_get_1d"], defines=MEM, allow_no_body=NB + ["ssw_memcpy", "ssw_memmove"], min_postconditions=2),
    dict(name="s3file_get_3d", harness=H, enforce="s3file_get_3d", replace=["s3file_get", "s3file_get_1d"], defines=MEM, allow_no_body=NB + ["ssw_memcpy", "ssw_memmove"], min_postconditions=2),
    dict(name="s3file_verify_chksum", harness=H, enforce="s3file_verify_chksum", replace=["s3file_get"], defines=MEM, allow_no_body=NB + ["ssw_memcpy", "ssw_memmove"], min_postconditions=3),
    dict(name="s3file_file_get_1d", harness=H, entry="r_s3file_arrays", defines=["S3_ELSZ=4", "FLEN=12", "MODE=0"], allow_no_body=NB, unwind=14,
         replay={"name": "s3file_file_replay", "harness": H, "entry": "r_s3file_arrays", "defines": ["S3_ELSZ=4", "FLEN=12", "MODE=0"], "native_replay": True, "canary": False,
                 "allow_no_body": NB, "unwind": 14, "native_sources": "ALL", "native_exclude": ["s3file.c"]},
         bounded="whole files of <= 12 symbolic bytes through the real get_1d (element size 4, both byte orders, checksum on/off)"),
    dict(name="s3file_file_get_2d", harness=H, entry="r_s3file_arrays", defines=["S3_ELSZ=4", "FLEN=16", "MODE=1"], allow_no_body=NB, unwind=18,
         replay={"name": "s3file_file_replay", "harness": H, "entry": "r_s3file_arrays", "defines": ["S3_ELSZ=4", "FLEN=16", "MODE=1"], "native_replay": True, "canary": False,
                 "allow_no_body": NB, "unwind": 18, "native_sources": "ALL", "native_exclude": ["s3file.c"]},
         bounded="whole files of <= 16 symbolic bytes through the real get_2d (element size 4, both byte orders, checksum on/off)"),
    dict(name="s3file_file_get_3d", harness=H, entry="r_s3file_arrays", defines=["S3_ELSZ=4", "FLEN=20", "MODE=2"], allow_no_body=NB, unwind=22,
         replay={"name": "s3file_file_replay", "harness": H, "entry": "r_s3file_arrays", "defines": ["S3_ELSZ=4", "FLEN=20", "MODE=2"], "native_replay": True, "canary": False,
                 "allow_no_body": NB, "unwind": 22, "native_sources": "ALL", "native_exclude": ["s3file.c"]},
         bounded="whole files of <= 20 symbolic bytes through the real get_3d (element size 4, both byte orders, checksum on/off)"),
    dict(name="s3file_file_parse_header", tiers=("probe",), harness=H, entry="r_s3file_arrays", defines=["S3_ELSZ=4", "FLEN=8", "MODE=3"], allow_no_body=NB, unwind=10,
         replay={"name": "s3file_file_replay", "harness": H, "entry": "r_s3file_arrays", "defines": ["S3_ELSZ=4", "FLEN=8", "MODE=3"], "native_replay": True, "canary": False,
                 "allow_no_body": NB, "unwind": 10, "native_sources": "ALL", "native_exclude": ["s3file.c"]},
         bounded="whole files of <= 8 symbolic bytes through the real parse_header (element size 4, both byte orders, checksum on/off)"),
]
NATIVE = [
    dict(name="s3file_header_enum", source="native/s3file_header_enum.c", repo_sources="ALL_EXCEPT:s3file.c,ckd_alloc.c", cflags=["-w", "-fsanitize=address"],
         args={"quick": [], "thorough": ["thorough"]}, exhaustive=True,
         bound="EVERY file of <= 5 bytes (thorough 6) over a 15-letter alphabet through the real s3file_parse_header, exact-size heap blocks under AddressSanitizer, exit() trapped"),
    dict(name="loader_fault_enum", source="native/loader_fault_enum.c", repo_sources="ALL_EXCEPT:", cflags=["-w", "-fsanitize=address", "-Dexit=ssw_exit"],
         args={"quick": [], "thorough": ["thorough"]}, exhaustive=False, timeout=3000,
         bound="fault enumeration over the bundled en-us and fr-fr model files (transition_matrices, means, variances, sendump, mdef, feat_params.json): truncation lengths "
               "(every length for transition_matrices and for header regions, a stride through the data: quick ~16 000 trials, thorough ~10x), every header byte x 4 values, "
               "every count word x 11 values; in memory through the real *_init_s3file loaders (exact-size heap blocks, AddressSanitizer) and from disk through decoder_init "
               "(memory mapped) followed by loading the intact model in the same process; exit(), signals and hangs trapped per forked trial"),
]
ASSUMPTIONS = [
    "file view: a buffer of verif_flen <= 1 000 000 bytes; element size is a compile-time constant per run (4 in the quick tier)",
    "s3file_get at call sites: the destination is a writable block of the requested size (w_ok) and is distinct from the file (locals / fresh allocations: by inspection)",
    "memcpy replaced by a bounds-only contract in the contract groups (requires asserted at the call site); byte loops in the bounded whole-file groups",
    "chksum_accum: bounds-only assumed contract at call sites, enforced separately for n_el <= 6 (its loops cannot carry loop contracts: goto-instrument crashes when the accumulator parameter is in the assigns clause)",
    "allocation stubs carry the obligation 'never allocate more elements than the file has bytes'; row-pointer builders carry 'd1*d2(*d3)*size <= size of the data block'",
    "s3file_get_1d's contract is used by the get_2d/get_3d contract groups but its own DFCC proof did not finish (tier 'probe'); it is covered by the bounded whole-file group instead",
]
HAND_LEMMAS = []
NOT_COVERED = ["the loaders above the s3file layer (bin_mdef_read_s3file, tmat_init_s3file, gauden_param_read, read_sendump, ptm/s2_semi/ms_mgau init, acmod_load_am) are NOT under contract: "
               "floating point, megabyte tables and dozens of allocation sites; they are decided only by the bounded native fault enumeration loader_fault_enum (sampled truncation lengths, "
               "single byte / single word damage) -- labelled bounded, never counted as proved",
               "senone_init / mixture_weights / senmgau / feature_transform (lda) loaders: no such file in the bundled models, exercised only through the 'file missing' path",
               "text mdef reader (mdef.c): ~40 E_FATAL sites remain for damaged TEXT model definitions (not a bundled file format; only the three exits taken for binary / missing / empty files were repaired)",
               "feat_params.json: value damage is enumerated byte-wise only (4 replacement values per byte); the E_FATAL sites it reached in cmn.c / feat.c / fe_sigproc.c were repaired, cmn_live.c still exits on varnorm + live CMN (a configuration the library rejects by design)",
               "multi-field damage (two counts changed consistently), damage inside the floating-point payload beyond what the checksum catches"]
CLAIM = dict(
    text="The s3file layer every model loader reads through is under contract: s3file_nextline/nextword (loop invariants, termination) and s3file_get (with byte-swap loops) never read outside the file for files of any length up to 1 MB; s3file_get_2d/_3d/verify_chksum are proved against the callee contracts to report failure through the return value, never reaching exit(), never allocating more than the file could fill and never building row pointers outside the data block. The whole chain (real get/get_1d/get_2d/get_3d, byte-level copies) is additionally checked on every file of <= 12..20 symbolic bytes (bounded) and the header parser on every file of <= 5 bytes over a 15-letter alphabet by native enumeration under ASan, which found two further genuine defects. The loaders above this layer are NOT covered. Above that layer the loaders themselves (tmat, means/variances, sendump through ptm/s2_semi, binary mdef, and decoder_init from memory-mapped files with the intact model loaded afterwards in the same process) are NOT under contract; they are decided by a bounded native fault enumeration over the two bundled models (about 17 000 damaged files per quick run: truncations, header bytes, count words; each in a forked child under AddressSanitizer with exit() trapped), which found and now guards five further defects that were repaired.",
    note="contracts on the s3file layer only; loaders (mdef, tmat, gauden, sendump, mgau init, acmod_load_am) decided by a bounded native fault enumeration under ASan (not proof); get_1d by bounded check only; ten genuine defects fixed (3 in s3file, 5 in the loaders, 2 in configuration-value validation reached from feat_params.json); trusted: CBMC 6.11, ASan",
    technique="CBMC function + loop contracts (goto-instrument --dfcc) with pointer-offset invariants on the s3file layer; bounded whole-file CBMC runs with unwinding assertions as stand-in for get_1d/parse_header; bounded native fault enumeration under ASan as stand-in for the loaders; counterexamples replayed natively")
