# C17 -- damaged acoustic-model files (src/s3file.c layer)
H = "harness/C17_s3file.c"
NB = ["mmio_file_read", "mmio_file_unmap", "mmio_file_ptr", "mmio_file_size", "strncmp", "strlen"]
MEM = ["SSW_NO_MEM_STUBS", "S3_ELSZ=4"]
GROUPS = [
    dict(name="s3file_nextline", harness=H, enforce="s3file_nextline", loop_contracts=True, loops=["s3file_nextline.scan"], defines=MEM, allow_no_body=NB + ["ssw_memcpy", "ssw_memmove"], min_postconditions=3),
    dict(name="s3file_nextword", harness=H, enforce="s3file_nextword", loop_contracts=True, loops=["s3file_nextword.skip", "s3file_nextword.word", "s3file_nextword.trail"],
         min_loop_steps=3, defines=MEM, allow_no_body=NB + ["ssw_memcpy", "ssw_memmove"], min_postconditions=2),
    dict(name="s3file_get", harness=H, enforce="s3file_get", loop_contracts=True, replace=["ssw_memcpy", "chksum_accum"], defines=MEM + ["S3_GET_ENFORCE"], allow_no_body=NB + ["ssw_memmove"],
         loops=["swap_buf.u16", "swap_buf.u32", "swap_buf.u64"], min_loop_steps=3, min_postconditions=4),
    dict(name="chksum_accum_bounded", harness=H, enforce="chksum_accum", defines=["SSW_NO_MEM_STUBS", "S3_CHK_BOUND"], allow_no_body=NB + ["ssw_memcpy", "ssw_memmove"], unwind=9, min_postconditions=1,
         bounded="n_el <= 6 elements (loop contracts on these loops crash goto-instrument: the accumulator is a parameter)"),
    dict(name="s3file_get_1d_inl", harness=H, entry="h_s3file_get_1d", enforce="s3file_get_1d", replace=["ssw_memcpy", "chksum_accum"], loop_contracts=True, loops=["swap_buf.u16", "swap_buf.u32", "swap_buf.u64"], defines=MEM + ["S3_MAXLEN=64"], allow_no_body=NB + ["ssw_memmove"], tiers=("probe",)),
    dict(name="s3file_get_1d", harness=H, enforce="s3file_get_1d", replace=["s3file_get"], defines=MEM + ["S3_MAXLEN=64"],
         bounded="file length <= 64 bytes (counts read from the file are arbitrary 32-bit values; symbolic-size allocations beyond that did not finish)", allow_no_body=NB + ["ssw_memcpy", "ssw_memmove"], min_postconditions=3),
    dict(name="s3file_get_2d", harness=H, enforce="s3file_get_2d", replace=["s3file_get", "s3file_get_1d"], defines=MEM, allow_no_body=NB + ["ssw_memcpy", "ssw_memmove"], min_postconditions=2),
    dict(name="s3file_get_3d", harness=H, enforce="s3file_get_3d", replace=["s3file_get", "s3file_get_1d"], defines=MEM, allow_no_body=NB + ["ssw_memcpy", "ssw_memmove"], min_postconditions=2),
    dict(name="s3file_verify_chksum", harness=H, enforce="s3file_verify_chksum", replace=["s3file_get"], defines=MEM, allow_no_body=NB + ["ssw_memcpy", "ssw_memmove"], min_postconditions=3),
]
