# C05 -- JSGF compilation: refusal clause
H = "harness/C05_jsgf.c"
GROUPS = [
    dict(name="jsgf_build_fsg_refuses", harness=H, entry="h_jsgf_build_fsg_internal", enforce="jsgf_build_fsg_internal", replace=["expand_rule", "glist_free"],
         allow_no_body=["*"], min_postconditions=2),
    dict(name="expand_rhs_links", tiers=("probe",), harness=H, entry="h_expand_rhs", enforce="expand_rhs", defines=["VERIF_C05_RHS"], unwind=12, unwindset="expand_rhs_wrapped_for_contract_checking.0:3,expand_rhs_wrapped_for_contract_checking.1:4,strcmp.0:9",
         replace=["hash_table_lookup", "jsgf_fullname_from_rule", "jsgf_add_link", "expand_rule"], allow_no_body=["*"], min_postconditions=2,
         bounded="right-hand sides of <= 2 atoms with symbolic 7-character names, rule stack of <= 1 rule"),
]
ASSUMPTIONS = [
    "expand_rule / expand_rhs (mutually recursive: DFCC rejects recursion) are summarised by an ASSUMED contract: returns -1 on failure, may leave rules on the stack",
    "the case under contract is 'the expansion failed' (verif_expand_ret == -1); fresh grammar object (no links from an earlier build)",
]
HAND_LEMMAS = []
NOT_COVERED = ["expand_rhs link emission (contract written: every link for a rule reference must enter the referenced rule's entry state; tier probe: one caller obligation fails for a reason not yet understood, 9 minutes per run)", "language equivalence of the compiler (sequences, alternatives, Kleene closures, optionals, tail recursion: seeded change C05_A)", "weight normalisation (seeded change C05_B)", "the generated scanner and parser", "which grammars make expand_rule fail (recursion and undefined-rule detection inside expand_rhs)"]
CLAIM = dict(
    text="Only the refusal clause is decided: whenever the rule expansion reports failure, jsgf_build_fsg_internal returns NULL (no FSG is handed out) and leaves no rule on the rule stack; proved for arbitrary grammar/rule objects. That the compiled FSG accepts exactly the JSGF language, and that weights are normalised, is NOT decided by any contract here.",
    note="refusal clause only (one genuine defect found and fixed there); expansion functions are recursive and only summarised by an assumed contract; language equivalence not covered",
    technique="CBMC function contract (goto-instrument --dfcc), callee replaced by an assumed summary contract, case selection in the precondition")
