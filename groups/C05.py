# C05 -- JSGF compilation: refusal clause
H = "harness/C05_jsgf.c"
GROUPS = [
    dict(name="jsgf_build_fsg_refuses", harness=H, entry="h_jsgf_build_fsg_internal", enforce="jsgf_build_fsg_internal", replace=["expand_rule", "glist_free"],
         allow_no_body=["*"], min_postconditions=2),
    dict(name="expand_rhs_links", tiers=("probe",), harness=H, entry="h_expand_rhs", enforce="expand_rhs", defines=["VERIF_C05_RHS"], unwind=12, unwindset="expand_rhs_wrapped_for_contract_checking.0:3,expand_rhs_wrapped_for_contract_checking.1:4,strcmp.0:9",
         replace=["hash_table_lookup", "jsgf_fullname_from_rule", "jsgf_add_link", "expand_rule"], allow_no_body=["*"], min_postconditions=2,
         bounded="right-hand sides of <= 2 atoms with symbolic 7-character names, rule stack of <= 1 rule"),
]
NATIVE = [
    dict(name="jsgf_language_enum", source="native/jsgf_language_enum.c", repo_sources="ALL_EXCEPT:", cflags=["-w", "-fsanitize=address"],
         args={"quick": [], "thorough": ["thorough"]}, exhaustive=True,
         bound="EVERY JSGF expression of nesting depth <= 2 over the atoms a, b, <NULL>, <x>, <VOID> and the constructors group, optional, star, plus, tag, sequence, alternative, "
               "weighted alternative (two weight pairs) -- quick: every third pair for the binary constructors over two depth-1 operands (seq, alt only); thorough: all -- "
               "through the real parser and compiler; accepted word sequences of length <= 4 compared with the denotation; arc probabilities leaving every state of the raw FSG sum to one; "
               "fixed cases for tail / left / embedded recursion, undefined rules and a missing public rule"),
]
ASSUMPTIONS = [
    "expand_rule / expand_rhs (mutually recursive: DFCC rejects recursion) are summarised by an ASSUMED contract: returns -1 on failure, may leave rules on the stack",
    "the case under contract is 'the expansion failed' (verif_expand_ret == -1); fresh grammar object (no links from an earlier build)",
]
HAND_LEMMAS = []
NOT_COVERED = ["expand_rule / expand_rhs are NOT under contract (mutually recursive: DFCC rejects recursion; the link-emission contract in tier 'probe' has one caller obligation failing for a reason not understood): "
               "language preservation, weight normalisation and the recursion / undefined-rule refusals are decided by the exhaustive native enumeration jsgf_language_enum (bounded stand-in, never counted as proved)",
               "grammars outside the enumerated family: nesting deeper than 2, more than two words, imports, several public rules, weights on operands of unary operators, sequences longer than 4 words",
               "the generated scanner and parser (exercised by the enumeration only through the family's texts)"]
CLAIM = dict(
    text="Only the refusal clause is decided: whenever the rule expansion reports failure, jsgf_build_fsg_internal returns NULL (no FSG is handed out) and leaves no rule on the rule stack; proved for arbitrary grammar/rule objects. That the compiled FSG accepts exactly the JSGF language, and that weights are normalised, is NOT decided by any contract here. The language clause itself (the FSG accepts exactly the denoted word sequences; alternative weights become probabilities that sum to one per choice point; left / embedded recursion -- also when hidden in a group or optional -- undefined rules and a missing public rule are refused; tail recursion compiles correctly) is decided by an exhaustive native enumeration of about 17 000 grammars of nesting depth <= 2 against an independent denotational evaluator: a bounded stand-in, not a proof. It found one more genuine defect (recursion hidden in a group compiled into another language), repaired in /repo.",
    note="refusal clause only (one genuine defect found and fixed there); expansion functions are recursive and only summarised by an assumed contract; language equivalence not covered; language / weights / recursion refusals by exhaustive native enumeration of small grammars (bounded, not proof); trusted there: the denotational reference evaluator and the max-plus FSG evaluator in native/jsgf_language_enum.c",
    technique="CBMC function contract (goto-instrument --dfcc), callee replaced by an assumed summary contract, case selection in the precondition; exhaustive native enumeration of small JSGF grammars against a denotational reference as bounded stand-in for the recursive compiler")
