# C15 -- endpointer (src/ps_endpointer.c)
H = "harness/C15_endpointer.c"
SRC = "src/ps_endpointer.c"
GEO = ["EP_MAXLEN=4", "EP_FS=4"]
NOBODY = ["vad_init", "vad_free", "vad_frame_length", "WebRtcVad_Process"]
REPLAY_COUNT = {"name": "ep_speech_count_replay", "harness": H, "entry": "r_ep_speech_count", "native_replay": True,
                "canary": False, "defines": GEO, "native_sources": ["src/ckd_alloc.c", "src/err.c"], "allow_no_body": NOBODY}
GROUPS = [
    dict(name="ep_push", harness=H, enforce="ep_push", defines=GEO, replace=["ep_full"], allow_no_body=NOBODY, min_postconditions=7),
    dict(name="ep_pop", harness=H, enforce="ep_pop", defines=GEO, replace=["ep_empty"], allow_no_body=NOBODY, min_postconditions=3),
    dict(name="ep_empty", harness=H, enforce="ep_empty", defines=GEO, allow_no_body=NOBODY),
    dict(name="ep_full", harness=H, enforce="ep_full", defines=GEO, allow_no_body=NOBODY),
    dict(name="ep_speech_count_exact", harness=H, entry="r_ep_speech_count", defines=GEO, allow_no_body=NOBODY, replay=REPLAY_COUNT,
         bounded="queue geometry maxlen=4 (loops fully unwound, all (pos, n), symbolic flags)"),
    dict(name="ep_speech_count_exact_6", harness=H, entry="r_ep_speech_count", defines=["EP_MAXLEN=6", "EP_FS=2"], allow_no_body=NOBODY,
         replay=dict(REPLAY_COUNT, defines=["EP_MAXLEN=6", "EP_FS=2"]), tiers=("thorough",),
         bounded="queue geometry maxlen=6 (loops fully unwound, all (pos, n), symbolic flags)"),
    dict(name="ep_speech_count", harness=H, enforce="ep_speech_count", defines=["EP_SYMBOLIC_MAXLEN", "EP_FS=4"], replace=["ep_empty", "ep_full"],
         loop_contracts=True, loops=["ep_speech_count.full", "ep_speech_count.partial"], min_loop_steps=2, allow_no_body=NOBODY),
    dict(name="ep_linearize", backends=[["--sat-solver", "cadical"]], harness=H, enforce="ep_linearize", defines=["EP_MAXLEN=3", "EP_FS=2"], allow_no_body=NOBODY, min_postconditions=3, unwind=14),
    dict(name="endpointer_process", harness=H, enforce="endpointer_process", defines=GEO,
         replace=["vad_classify", "ep_push", "ep_pop", "ep_speech_count", "ep_full"], allow_no_body=NOBODY, min_postconditions=12,
         backends=[["--sat-solver", "cadical"]], timeout={"quick": 900, "thorough": 1800}),
    dict(name="endpointer_end_stream", harness=H, enforce="endpointer_end_stream", defines=GEO + ["SSW_NO_MEM_STUBS"], loop_contracts=True, loops=["end_stream.drain"],
         replace=["ep_linearize", "ep_pop", "ep_empty", "vad_sample_rate", "ssw_memcpy"], allow_no_body=NOBODY, min_postconditions=4, unwind=12),
]

ENFORCED_ELSEWHERE = {}
ASSUMPTIONS = [
    "vad_classify (WebRTC VAD) returns 0 or 1 and touches nothing the endpointer owns; vad_frame_size/vad_sample_rate are ghost constants",
    "queue geometry is concrete per run: content-level contracts on (maxlen, frame_size) = (4, 4) [ep_linearize (3, 2)]; index-level counting loop with symbolic maxlen <= 3000",
    "times are not NaN (x >= 0) and frame_length in (0, 1]",
    "ghost counters verif_pushed / verif_dropped are incremented by ghost statements next to every timestamp / qstart_time update: 'qstart_time is the stream time of the oldest queued frame' is the same fold of frame_length over verif_dropped (hand lemma)",
    "memcpy/memmove are byte loops in the verification build (ssw_ghost.h)",
]
HAND_LEMMAS = ["no gaps/repeats: n == pushed - dropped is an invariant and every returned frame is the oldest queued one (pop), so frames leave the queue in arrival order exactly once",
               "speech_start + frame_length == qstart_time after the triggering call, where qstart_time is the fold of frame_length over the frames dropped or returned so far: speech_start is the stream position of the first returned frame"]
NOT_COVERED = ["content of the excerpt returned by endpointer_end_stream (index level only: memcpy by bounds contract)", "endpointer_init float rounding of the window", "vad_classify itself"]
CLAIM = dict(
    text="The look-back ring queue and the endpointing state machine are proved against contracts: ep_push/ep_pop implement a FIFO (slot written, slot dropped only when full, written bytes equal the input frame, all other slots unchanged, pointer returned = oldest frame), ep_linearize rotates the queue to slot 0 preserving order (geometry 3 x 2), ep_speech_count reads only live memory and terminates for any queue length <= 3000 (and returns the exact count on small queues, bounded), endpointer_process pushes exactly once, pops at most once, starts only when MORE than start_frames are speech, ends once FEWER than end_frames are, returns a frame iff in speech or just left, and ties speech_start/speech_end to the queue time; endpointer_end_stream (drain loop under loop contract, termination) returns the buffer start after linearisation, reports whole queued frames plus the trailing partial frame copied INSIDE the buffer, leaves the queue empty and the endpointer out of speech.",
    note="concrete small geometry for content-level facts; VAD assumed; trusted: CBMC 6.11 (cadical back end for endpointer_process)",
    technique="CBMC function + loop contracts (goto-instrument --dfcc), callees replaced by their contracts; ghost counters injected from annotation comments; bounded unwinding for the exact count")
