# C15 -- endpointer (src/ps_endpointer.c)
H = "harness/C15_endpointer.c"
SRC = "src/ps_endpointer.c"
GEO = ["EP_MAXLEN=4", "EP_FS=4"]
NOBODY = ["vad_init", "vad_free", "vad_frame_length", "WebRtcVad_Process"]
REPLAY_COUNT = {"name": "ep_speech_count_replay", "harness": H, "entry": "r_ep_speech_count", "native_replay": True,
                "canary": False, "defines": GEO, "native_sources": ["src/ckd_alloc.c", "src/err.c"], "allow_no_body": NOBODY}
GROUPS = [
    dict(name="ep_push", harness=H, enforce="ep_push", defines=GEO, replace=["ep_full"], allow_no_body=NOBODY, min_postconditions=7),
    dict(name="ep_pop", harness=H, enforce="ep_pop", defines=GEO, replace=["ep_empty"], allow_no_body=NOBODY, min_postconditions=3),
    dict(name="ep_empty", harness=H, enforce="ep_empty", defines=GEO, allow_no_body=NOBODY),
    dict(name="ep_full", harness=H, enforce="ep_full", defines=GEO, allow_no_body=NOBODY),
    dict(name="ep_speech_count_exact", harness=H, entry="r_ep_speech_count", defines=GEO, allow_no_body=NOBODY, replay=REPLAY_COUNT,
         bounded="queue geometry maxlen=4 (loops fully unwound, all (pos, n), symbolic flags)"),
    dict(name="ep_speech_count_exact_6", harness=H, entry="r_ep_speech_count", defines=["EP_MAXLEN=6", "EP_FS=2"], allow_no_body=NOBODY,
         replay=dict(REPLAY_COUNT, defines=["EP_MAXLEN=6", "EP_FS=2"]), tiers=("thorough",),
         bounded="queue geometry maxlen=6 (loops fully unwound, all (pos, n), symbolic flags)"),
    dict(name="ep_speech_count", harness=H, enforce="ep_speech_count", defines=["EP_SYMBOLIC_MAXLEN", "EP_FS=4"], replace=["ep_empty", "ep_full"],
         loop_contracts=True, loops=["ep_speech_count.full", "ep_speech_count.partial"], min_loop_steps=2, allow_no_body=NOBODY),
    dict(name="ep_linearize", harness=H, enforce="ep_linearize", defines=["EP_MAXLEN=3", "EP_FS=2"], allow_no_body=NOBODY, min_postconditions=3, unwind=14),
    dict(name="endpointer_process", harness=H, enforce="endpointer_process", defines=GEO,
         replace=["vad_classify", "ep_push", "ep_pop", "ep_speech_count", "ep_full"], allow_no_body=NOBODY, min_postconditions=12),
]
