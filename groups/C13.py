# C13 -- grammar transformations (src/fsg_model.c)
H = "harness/C13_fsg_model.c"
REPL = ["hash_table_lookup_bkey", "hash_table_enter_bkey", "hash_table_new", "__listelem_malloc__"]
NB = ["hash_table_replace_bkey", "glist_add_ptr", "hash_table_iter", "hash_table_iter_next", "glist_free", "hash_table_free", "hash_table_tolist",
      "bitvec_realloc", "logmath_log", "logmath_exp", "logmath_retain", "logmath_free", "listelem_alloc_init", "listelem_alloc_free", "fprintf", "fclose", "fopen",
      "hash_table_lookup_int32", "hash_table_enter_int32", "hash_table_empty", "s3file_nextline", "s3file_nextword", "s3file_copy_nextword", "atof", "strtol",
      "s3file_map_file", "s3file_free", "fflush", "hash_table_lookup", "hash_table_enter", "hash_table_iter_free", "glist_reverse", "strcmp", "sprintf", "snprintf", "atof_c"]
HB = "harness/C13_fsg_bounded.c"
NBB = NB + ["printf"]
def RB(entry, **kw):
    d = {"name": entry[2:] + "_replay", "harness": HB, "entry": entry, "native_replay": True, "canary": False,
         "native_sources": ["src/ckd_alloc.c", "src/err.c", "src/glist.c", "src/hash_table.c", "src/listelem_alloc.c", "src/bitvec.c", "src/logmath.c", "src/mmio.c", "src/strfuncs.c", "src/s3file.c", "src/case.c"], "allow_no_body": NBB}
    d.update(kw)
    return d
EXTRA = ["@src/hash_table.c", "@src/glist.c", "@src/bitvec.c"]
GROUPS = [
    dict(name="fsg_model_tag_trans_add", harness=H, enforce="fsg_model_tag_trans_add", replace=REPL, allow_no_body=NB, min_postconditions=5),
    dict(name="fsg_model_null_trans_add", harness=H, enforce="fsg_model_null_trans_add", replace=REPL + ["fsg_model_tag_trans_add"], allow_no_body=NB, min_postconditions=3),
    dict(name="null_closure_3", tiers=("probe",), harness=HB, entry="r_null_closure", defines=["NST=3", "ALL_PRESENT", "ROT=1"], extra_sources=EXTRA, allow_no_body=NBB, unwind=12,
         unwindset="hash_table_iter_next.0:110,fsg_model_null_trans_closure.4:5,fsg_model_null_trans_closure.3:5,fsg_model_null_trans_closure.2:4,fsg_model_null_trans_closure.1:4,fsg_model_null_trans_closure.0:5",
         flags=["--no-undefined-shift-check", "--no-signed-overflow-check"], replay=RB("r_null_closure", defines=["NST=3", "ALL_PRESENT", "ROT=1"]),
         bounded="3 states, all 3 null arcs i<j present, symbolic log-probabilities in [-1000,0]; real hash table / glist code"),
    dict(name="null_closure_4_r0", tiers=("probe",), harness=HB, entry="r_null_closure", defines=["NST=4", "ALL_PRESENT", "ROT=0"], extra_sources=EXTRA, allow_no_body=NBB, unwind=18, unwindset="hash_table_iter_next.0:110,fsg_model_null_trans_closure.4:6,fsg_model_null_trans_closure.3:9,fsg_model_null_trans_closure.2:5,fsg_model_null_trans_closure.1:5,fsg_model_null_trans_closure.0:6",
         flags=["--no-undefined-shift-check", "--no-signed-overflow-check"], replay=RB("r_null_closure", defines=["NST=4", "ALL_PRESENT", "ROT=0"]),
         bounded="4 states, all 6 null arcs i<j present, symbolic log-probabilities in [-1000,0], arc list rotation 0; real hash table / glist code"),
    dict(name="add_silence_2_q0", harness=HB, entry="r_add_silence_alt", defines=["NST=2", "ALL_PRESENT", "MODE=0", "QPAIR=0"], extra_sources=EXTRA, allow_no_body=NBB, unwind=10,
         unwindset="hash_table_iter_next.0:110", flags=["--no-undefined-shift-check", "--no-signed-overflow-check"], replay=RB("r_add_silence_alt", defines=["NST=2", "ALL_PRESENT", "MODE=0", "QPAIR=0"]),
         bounded="2 states, all 4 word arcs present with labels (from state) mod 2, symbolic probabilities, silence transformation, witness state pair 0; real hash table / glist code"),
    dict(name="add_silence_2_q1", harness=HB, entry="r_add_silence_alt", defines=["NST=2", "ALL_PRESENT", "MODE=0", "QPAIR=1"], extra_sources=EXTRA, allow_no_body=NBB, unwind=10,
         unwindset="hash_table_iter_next.0:110", flags=["--no-undefined-shift-check", "--no-signed-overflow-check"], replay=RB("r_add_silence_alt", defines=["NST=2", "ALL_PRESENT", "MODE=0", "QPAIR=1"]),
         bounded="2 states, all 4 word arcs present with labels (from state) mod 2, symbolic probabilities, silence transformation, witness state pair 1; real hash table / glist code"),
    dict(name="add_silence_2_q2", harness=HB, entry="r_add_silence_alt", defines=["NST=2", "ALL_PRESENT", "MODE=0", "QPAIR=2"], extra_sources=EXTRA, allow_no_body=NBB, unwind=10,
         unwindset="hash_table_iter_next.0:110", flags=["--no-undefined-shift-check", "--no-signed-overflow-check"], replay=RB("r_add_silence_alt", defines=["NST=2", "ALL_PRESENT", "MODE=0", "QPAIR=2"]),
         bounded="2 states, all 4 word arcs present with labels (from state) mod 2, symbolic probabilities, silence transformation, witness state pair 2; real hash table / glist code"),
    dict(name="add_silence_2_q3", harness=HB, entry="r_add_silence_alt", defines=["NST=2", "ALL_PRESENT", "MODE=0", "QPAIR=3"], extra_sources=EXTRA, allow_no_body=NBB, unwind=10,
         unwindset="hash_table_iter_next.0:110", flags=["--no-undefined-shift-check", "--no-signed-overflow-check"], replay=RB("r_add_silence_alt", defines=["NST=2", "ALL_PRESENT", "MODE=0", "QPAIR=3"]),
         bounded="2 states, all 4 word arcs present with labels (from state) mod 2, symbolic probabilities, silence transformation, witness state pair 3; real hash table / glist code"),
    dict(name="add_alt_2_q0", harness=HB, entry="r_add_silence_alt", defines=["NST=2", "ALL_PRESENT", "MODE=1", "QPAIR=0"], extra_sources=EXTRA, allow_no_body=NBB, unwind=10,
         unwindset="hash_table_iter_next.0:110", flags=["--no-undefined-shift-check", "--no-signed-overflow-check"], replay=RB("r_add_silence_alt", defines=["NST=2", "ALL_PRESENT", "MODE=1", "QPAIR=0"]),
         bounded="2 states, all 4 word arcs present with labels (from state) mod 2, symbolic probabilities, alt transformation, witness state pair 0; real hash table / glist code"),
    dict(name="add_alt_2_q1", harness=HB, entry="r_add_silence_alt", defines=["NST=2", "ALL_PRESENT", "MODE=1", "QPAIR=1"], extra_sources=EXTRA, allow_no_body=NBB, unwind=10,
         unwindset="hash_table_iter_next.0:110", flags=["--no-undefined-shift-check", "--no-signed-overflow-check"], replay=RB("r_add_silence_alt", defines=["NST=2", "ALL_PRESENT", "MODE=1", "QPAIR=1"]),
         bounded="2 states, all 4 word arcs present with labels (from state) mod 2, symbolic probabilities, alt transformation, witness state pair 1; real hash table / glist code"),
    dict(name="add_alt_2_q2", harness=HB, entry="r_add_silence_alt", defines=["NST=2", "ALL_PRESENT", "MODE=1", "QPAIR=2"], extra_sources=EXTRA, allow_no_body=NBB, unwind=10,
         unwindset="hash_table_iter_next.0:110", flags=["--no-undefined-shift-check", "--no-signed-overflow-check"], replay=RB("r_add_silence_alt", defines=["NST=2", "ALL_PRESENT", "MODE=1", "QPAIR=2"]),
         bounded="2 states, all 4 word arcs present with labels (from state) mod 2, symbolic probabilities, alt transformation, witness state pair 2; real hash table / glist code"),
    dict(name="add_alt_2_q3", harness=HB, entry="r_add_silence_alt", defines=["NST=2", "ALL_PRESENT", "MODE=1", "QPAIR=3"], extra_sources=EXTRA, allow_no_body=NBB, unwind=10,
         unwindset="hash_table_iter_next.0:110", flags=["--no-undefined-shift-check", "--no-signed-overflow-check"], replay=RB("r_add_silence_alt", defines=["NST=2", "ALL_PRESENT", "MODE=1", "QPAIR=3"]),
         bounded="2 states, all 4 word arcs present with labels (from state) mod 2, symbolic probabilities, alt transformation, witness state pair 3; real hash table / glist code"),
]
NATIVE = [
    dict(name="fsg_transform_enum", source="native/fsg_transform_enum.c", repo_sources="ALL_EXCEPT:", cflags=["-w", "-fsanitize=address"],
         args={"quick": [], "thorough": ["thorough"]}, exhaustive=True,
         bound="EVERY null-arc graph with 3 states (<= 6 arcs) and 4 states (<= 4 arcs; thorough <= 5), 3 probabilities per arc, and 4 states with <= 6 arcs and 2 probabilities (thorough 3), through the real fsg_model_null_trans_closure against Floyd-Warshall; "
               "EVERY grammar with 2 states (<= 4 arcs; thorough 5) and 3 states (<= 3 arcs; thorough 4) over {null, a, b} x 2 probabilities through the real closure, add_silence, add_alt and write/read, "
               "best score of every word sequence of length <= 4 compared before/after"),
]
ASSUMPTIONS = [
    "the per-state null-transition hash table is replaced by its map view at one witness key (contracts/fsg_model.ghost.h): hash_table_lookup_bkey/enter_bkey/new and the link allocator are ASSUMED contracts (the map view itself is what C20 checks)",
    "log-probabilities handed to fsg_model_tag_trans_add are <= 0 (a caller obligation; E_FATAL otherwise)",
]
HAND_LEMMAS = ["closure soundness: every arc the closure adds is null_trans_add(a, c, p1 + p2) for existing arcs a->b, b->c; with the merge contract (never removes, never lowers, keeps the maximum) the closed graph has the same language and best probabilities (standard fixpoint argument, NOT machine checked here)"]
NOT_COVERED = ["fsg_model_null_trans_closure, fsg_model_add_silence, fsg_model_add_alt, fsg_model_write and fsg_model_read_s3file are NOT under contract as whole functions: a bounded CBMC run of the real closure over the real hash table "
               "(3 and 4 states) did not finish within 30 minutes (tier 'probe'); they are decided by the exhaustive native enumeration fsg_transform_enum over small grammars (bounded stand-in, never counted as proved)",
               "grammars larger than the enumerated family (more than 4 states / 6 null arcs / 4 labelled arcs), more than two real words, tag transitions, language weights other than 1.0",
               "fsg_model_write_fsm / symtab writers"]
CLAIM = dict(
    text="The null-arc merge rule is proved: fsg_model_tag_trans_add / fsg_model_null_trans_add leave the null arc (from,to) with the maximum of the old and new probability, create it exactly once when absent, reject self-loops, report 1/0/-1 accordingly, and never remove, lower or touch any other arc (witness form over the abstract arc map), for all states and probabilities. Silence self-loops and alternate-word arcs are checked on the real functions over the real hash table for a 2-state grammar with all word arcs present and symbolic probabilities (bounded, concrete structure): real-word arcs untouched, exactly one silence loop per state, adding it twice changes nothing, every base-word arc gets exactly one twin with the same endpoints and probability. The closure itself is NOT decided. The whole-function claims of the property (closure = best-path closure and idempotent, one null step suffices after closure, silence and alternates leave the real-word language and best probabilities unchanged, silence twice changes nothing, write/read round trip keeps states, labelled arcs and probabilities to 1e-6) are decided by an exhaustive native enumeration of every grammar in a small family (about 170 000 grammars per quick run) against an independent max-plus evaluator -- a bounded stand-in, not a proof.",
    note="contracts: merge rule only (hash table by assumed map view); closure / silence / alt / file round trip by exhaustive native enumeration over small grammars (bounded, not proof) and bounded CBMC runs on 2-state grammars; trusted: CBMC 6.11, the max-plus reference evaluator in native/fsg_transform_enum.c",
    technique="CBMC function contracts (goto-instrument --dfcc), callees replaced by map-view contracts, ghost witness key; bounded CBMC runs on 2-state grammars; exhaustive native enumeration of small grammars against a max-plus reference as bounded stand-in for the whole-function claims")
