# C02 -- local Viterbi optimality (src/hmm.c, transitions in src/fsg_search.c, src/fsg_history.c)
H = "harness/C02_hmm.c"
NB = []
R3 = {"name": "hmm_3st_replay", "harness": H, "entry": "r_hmm_3st", "native_replay": True, "canary": False,
      "native_sources": ["src/ckd_alloc.c", "src/err.c", "src/listelem_alloc.c", "src/glist.c"], "allow_no_body": NB, "unwind": 14}
GROUPS = [
    dict(name="hmm_vit_eval_3st_lr", harness=H, enforce="hmm_vit_eval_3st_lr", min_postconditions=15, replay=R3, allow_no_body=NB),
    dict(name="hmm_vit_eval_dispatch", harness=H, entry="h_hmm_vit_eval", enforce="hmm_vit_eval", replace=["hmm_vit_eval_3st_lr", "hmm_vit_eval_3st_lr_mpx", "hmm_vit_eval_5st_lr", "hmm_vit_eval_5st_lr_mpx", "hmm_vit_eval_anytopo"], min_postconditions=6, timeout=150, allow_no_body=["*"]),
    dict(name="hmm_vit_eval_dispatch_mpx", harness=H, entry="h_hmm_vit_eval", defines=["VERIF_HVE_MPX"], enforce="hmm_vit_eval", replace=["hmm_vit_eval_3st_lr", "hmm_vit_eval_3st_lr_mpx", "hmm_vit_eval_5st_lr", "hmm_vit_eval_5st_lr_mpx", "hmm_vit_eval_anytopo"], min_postconditions=6, timeout=150, allow_no_body=["*"]),
    dict(name="hmm_clear", harness=H, enforce="hmm_clear", min_postconditions=2, allow_no_body=NB, unwind=7),
    dict(name="hmm_normalize", harness=H, enforce="hmm_normalize", min_postconditions=2, allow_no_body=NB, unwind=7),
    dict(name="hmm_enter", harness=H, enforce="hmm_enter", min_postconditions=1, allow_no_body=NB),
    dict(name="hmm_vit_eval_3st_lr_mpx", harness=H, enforce="hmm_vit_eval_3st_lr_mpx", min_postconditions=12, allow_no_body=NB),
    dict(name="history_entry_add", harness="harness/C02_history.c", entry="r_history_entry_add", allow_no_body=["*"], unwind=6, extra_sources=["@src/glist.c"],
         replay={"name": "history_entry_add_replay", "harness": "harness/C02_history.c", "entry": "r_history_entry_add", "native_replay": True, "canary": False, "allow_no_body": ["*"], "unwind": 6,
                 "native_sources": "ALL", "native_exclude": ["fsg_history.c"]},
         bounded="one (state, left context) list of <= 2 entries with symbolic scores and 128-bit right-context sets, one addition, witness bit"),
]

NATIVE = [
    dict(name="lextree_triphone_enum", source="native/lextree_triphone_enum.c", repo_sources="ALL_EXCEPT:", cflags=["-w", "-fsanitize=address"],
         args={"quick": [], "thorough": ["thorough"]}, exhaustive=False, timeout=900,
         bound="every lextree node of 42 (thorough 402) grammars over tests/data/turtle.dic (en-us; listed chain / union grammars, pseudo-random grammars of 3..5 states and 4..9 word arcs, "
               "one 3-word dictionary with a word added at run time): node senone sequence == the model definition's triphone for every left / right context the node serves "
               "(bin_mdef_phone_id_nearest, independent of dict2pid's tables), and every (word arc, context) is served"),
    dict(name="viterbi_union_enum", source="native/viterbi_union_enum.c", repo_sources="ALL_EXCEPT:", cflags=["-w", "-fsanitize=address"],
         args={"quick": [], "thorough": ["thorough"]}, exhaustive=False, timeout=3000,
         bound="metamorphic run on tests/data/goforward.raw (en-us, all beams 0, batch CMN, compallsen): for 48 ordered pairs (thorough 240) of sentences whose words share leading phones "
               "(for / four / ford / fork / forth / forward / forwards, meter / meters, ten / tenth, go / goes), as probability-1 FSGs with separate paths and with shared prefix states: "
               "score(S1 | S2) == max(score(S1), score(S2)) and the better sentence is the one reported"),
]
ASSUMPTIONS = [
    "WF_HMM precondition: state scores are WORST_SCORE or in [WORST_SCORE + 2^20, 0], activity is prefix-closed, senone scores are >= 0 (negated logs), exit inactive while state 1 is",
    "3-state topologies only (the shipped models); hmm_vit_eval_5st_lr(_mpx) and hmm_vit_eval_anytopo are not under contract: in the dispatcher groups they carry the unsatisfiable precondition requires(0), so reaching them would be a failed obligation",
    "a skip arc of the 3-state code exists iff its stored cost is < 255 (TMAT_WORST_SCORE)",
]
HAND_LEMMAS = ["global optimality over all alignments is the standard Viterbi induction over frames from the local max-plus step; not machine checked"]
NOT_COVERED = ["global optimum over all alignments", "lextree / triphone construction as contracts (fsg_lextree.c, dict2pid.c): the triphone of every node is checked on ~43 real lextrees by the bounded native run lextree_triphone_enum only", "5-state and any-topology evaluators", "the global optimum over whole sentences (lextree construction, word transitions, cross-word triphones) is NOT under contract; it is exercised only by the bounded native metamorphic run viterbi_union_enum (union of two sentences scores the maximum of its parts) -- never counted as proved"]
CLAIM = dict(
    text="Each Viterbi step of the 3-state HMM evaluators (hmm_vit_eval_3st_lr and its multiplex variant) is proved, for ALL int32 score vectors satisfying the HMM invariant, all senone scores and all transition bytes, to be the exact clamped max-plus step over the legal arcs: every state's new score is the maximum of its predecessors' score minus senone score minus arc cost, each weight used once, back-pointers follow an arg-max predecessor, the best score is the maximum, nothing wraps. The dispatcher hmm_vit_eval is proved to reach exactly one of these two steps for 3-state HMMs, hmm_enter to set exactly the entry score, back-pointer and frame, hmm_clear to leave every score inactive and every back-pointer slot -1, and hmm_normalize to shift active scores by exactly the normaliser without wrapping. The search transitions that move scores between HMMs are under contract in the C01 check (same run.py groups: fsg_search_pnode_trans / word_trans / pnode_exit / hmm_prune_prop: source score plus the target's arc weight exactly once, exit score handed to the history unchanged). The history pruning rule (fsg_history_entry_add) is checked on lists of <= 2 entries with symbolic 128-bit right-context sets: for every right context the best score on offer is kept (bounded). Global optimality of the search is NOT decided (local steps only).",
    note="local optimality steps only; preconditions WF_HMM; search transitions, history pruning, lextree and the global maximum are not covered; trusted: CBMC 6.11",
    technique="CBMC function contract enforced with goto-instrument --dfcc, loop-free code over the full input domain; counterexamples replayed natively through a constructive harness; bounded native metamorphic run (optimum of a union grammar = maximum over its parts, pruning off) as safety net for the global clause")
