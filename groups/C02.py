# C02 -- local Viterbi optimality (src/hmm.c, transitions in src/fsg_search.c, src/fsg_history.c)
H = "harness/C02_hmm.c"
NB = []
R3 = {"name": "hmm_3st_replay", "harness": H, "entry": "r_hmm_3st", "native_replay": True, "canary": False,
      "native_sources": ["src/ckd_alloc.c", "src/err.c", "src/listelem_alloc.c", "src/glist.c"], "allow_no_body": NB, "unwind": 14}
GROUPS = [
    dict(name="hmm_vit_eval_3st_lr", harness=H, enforce="hmm_vit_eval_3st_lr", min_postconditions=12, replay=R3, allow_no_body=NB),
    dict(name="hmm_vit_eval_3st_lr_mpx", harness=H, enforce="hmm_vit_eval_3st_lr_mpx", min_postconditions=12, allow_no_body=NB),
]
