# C14 -- JSON result (src/decoder.c)
H = "harness/C14_json.c"
RJ = {"name": "result_json_replay", "harness": H, "entry": "r_result_json", "native_replay": True, "canary": False, "allow_no_body": ["*"], "unwind": 10, "object_bits": 13,
      "native_sources": "ALL", "native_exclude": ["decoder.c"]}
GROUPS = [
    dict(name="format_seg", harness="harness/C14_format.c", enforce="format_seg", replace=["ssw_snprintf4", "logmath_exp", "json_escape"], allow_no_body=["*"], unwind=3, min_postconditions=2, backends=[["--sat-solver", "cadical"]]),
    dict(name="result_json_empty", harness="harness/C14_format.c", entry="h_decoder_result_json_empty", enforce="decoder_result_json", defines=["VERIF_JSON_EMPTY"],
         replace=["format_hyp", "decoder_seg_iter", "config_int"], allow_no_body=["*"], unwind=10, min_postconditions=3),
    dict(name="json_escape", tiers=("probe",), harness="harness/C14_escape.c", entry="r_json_escape", allow_no_body=["*"], unwind=8, defines_thorough=["NESC=5"], unwind_thorough=10,
         bounded="every word spelling of <= 3 bytes (thorough 5), all 256 byte values per position; sprintf as an executable stub for the format \\u%04x"),
    dict(name="result_json_segments", tiers=("probe",), harness=H, entry="r_result_json", allow_no_body=["*"], unwind=10, object_bits=13, backends=[["--sat-solver", "cadical"]], flags=["--memory-leak-check"], replay=RJ,
         bounded="results of 0..2 segments, word spellings of 0..2 symbolic characters, frame rate 100 or 80, no alignment levels; snprintf as a deterministic executable stub"),
]

NATIVE = [
    dict(name="e2e_invariants", source="native/e2e_invariants.c", repo_sources="ALL_EXCEPT:", cflags=["-w", "-fsanitize=address"],
         args={"quick": ["C14"], "thorough": ["C14"]}, exhaustive=False,
         bound="end-to-end invariants of this property on ~12 real decodes (bundled en-us / fr-fr models; goforward recordings with JSGF grammar, FSG file and forced-alignment text; one call, 2048-sample blocks with partial results, float32; digital silence; white noise) under AddressSanitizer -- a safety net under the contracts, not a proof"),
    dict(name="json_escape_enum", source="native/json_escape_enum.c", repo_sources="ALL_EXCEPT:decoder.c", cflags=["-w", "-fsanitize=address"],
         args={"quick": [], "thorough": ["thorough"]}, exhaustive=True,
         bound="real json_escape: every spelling of 1 or 2 bytes over all 255 non-NUL byte values, every spelling of 3 bytes over 48 representative bytes, 100 000 (thorough 2 000 000) pseudo-random spellings of 4..14 bytes; decoded back by an independent JSON string decoder, exact length, ASan"),
    dict(name="json_times", source="native/json_times.c", repo_sources="ALL_EXCEPT:decoder.c", cflags=["-w"],
         args={"quick": ["quick"], "thorough": ["thorough"]}, exhaustive=True,
         bound="real format_seg: every start frame in [0,400) (thorough [0,3000)), durations 1..60, frame rates {50,80,100,120,125,200}, offsets {0,7.5}"),
]

ASSUMPTIONS = [
    "snprintf (libc) is an assumed contract: its return value is a ghost length that depends only on the call, at most size bytes are written; format string and %s argument are not interpreted",
    "json_escape (the escaper every \"t\" field goes through) is an ASSUMED contract inside the format_seg proof (returns a fresh NUL-terminated string); its content is decided by the exhaustive native run json_escape_enum on the real function (all spellings of <= 2 bytes, 3 bytes over 48 representative values, 100 000 longer mixes): bounded, not proof. A CBMC run of the same statement (harness/C14_escape.c, spellings <= 3 bytes) did not finish in 300 s and is kept in tier probe",
    "times: the doubles handed to snprintf are checked by native enumeration over the listed ranges (bounded stand-in): the CBMC obligation 'b == start + sf/frate' needs the equivalence of two double dividers and did not finish on any back end",
]
HAND_LEMMAS = ["two-pass agreement of decoder_result_json: sizing and writing pass call format_seg with the same arguments; by the format_seg contract both return the same length, so the write pass fills exactly the sized buffer (induction over the segment list; the bounded whole-function harness that checks this directly did not finish and is kept in tier 'probe')"]
NOT_COVERED = ["decoder_result_json with segments (loop over the segment iterator)", "format_seg_align / format_align_iter (alignment levels 1 and 2)", "json_escape as a contract (assumed in the format_seg proof; decided on a bounded space by the native run json_escape_enum)", "probability field", "the items above (except JSON escaping, for which no code exists) are NOT under contract; on real decodes they are exercised only by the bounded native run e2e_invariants (independent JSON parser, levels 0-2, two frame rates) -- never counted as proved"]
CLAIM = dict(
    text="format_seg, the function that formats one segment of the JSON line, is proved (loop-free, full domain, snprintf replaced by an assumed contract): the sizing call (NULL buffer) and the writing call return the same length, the writing call stays inside its buffer and ends the item with '}' and NUL. The time fields (offset + frame / frame rate, duration / frame rate) of the real format_seg are checked by native enumeration over 43 200 (quick) frame/rate/offset combinations including rates that do not divide 1000. For an EMPTY result (no segments, no alignment) the whole line is proved: it is exactly as long as the block allocated for it, ends with ]} newline NUL, and no byte is written outside the block. Word spellings: the real json_escape is run on every spelling of <= 2 bytes, every 3-byte spelling over 48 representative byte values and 100 000 longer mixes, decoded back by an independent JSON string decoder under AddressSanitizer (bounded native run). The whole line WITH segments is NOT decided by contracts (bounded end-to-end run only).",
    note="assumed snprintf contract; native enumeration for the floating-point time fields (bounded); decoder_result_json as a whole, alignment levels and JSON escaping not covered; end-to-end invariants on ~12 real decodes by a bounded native run (native/e2e_invariants.c), never counted as proved",
    technique="CBMC function contract (goto-instrument --dfcc) for format_seg; native exhaustive enumeration as bounded stand-in for the floating-point time fields; plus a bounded native run of the property's end-to-end invariants on real decodes (safety net, not proof)")
