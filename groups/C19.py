# C19 -- log-domain addition (src/logmath.c)
SRC = "src/logmath.c"
REPLAY = {"name": "logmath_add_replay", "harness": "harness/C19_logmath.c", "entry": "r_logmath_add",
          "native_replay": True, "canary": False,
          "native_sources": ["src/ckd_alloc.c", "src/err.c", "src/mmio.c", "src/strfuncs.c"]}
GROUPS = [
    dict(name="logmath_add", harness="harness/C19_logmath.c", enforce="logmath_add", min_postconditions=5,
         must_exist=[("logmath_add", SRC)], replay=REPLAY,
         allow_no_body=["logmath_add_exact", "log", "pow"]),
    dict(name="logmath_add_symmetric", harness="harness/C19_logmath.c", entry="r_logmath_add",
         allow_no_body=["logmath_add_exact", "log", "pow"], replay=REPLAY,
         bounded="constructive harness: table object <= 70000 entries (symmetry only; bounds/identity are proved without a size bound in group logmath_add)"),
    dict(name="logmath_get_zero", harness="harness/C19_logmath.c", enforce="logmath_get_zero"),
    dict(name="logmath_log", harness="harness/C19_logmath.c", enforce="logmath_log", allow_no_body=["log"]),
]
NATIVE = [
    dict(name="logtable", source="native/logtable.c", repo_sources=["src/logmath.c", "src/ckd_alloc.c", "src/err.c", "src/mmio.c", "src/strfuncs.c"],
         cflags=["-fsanitize=address,undefined", "-fno-sanitize=shift", "-fno-sanitize-recover=undefined"],
         args={"quick": ["quick"], "thorough": ["thorough"]},
         bound="real logmath_init tables for the listed (base, shift) pairs; every table entry, every d in the table, stratified log/exp sweep",
         exhaustive=True),
]
ASSUMPTIONS = [
    "logmath_add: the add table satisfies entry[d] <= entry[0] == T0 (instantiated at d = |x-y|); established by logmath_init, checked by exhaustive native enumeration of real tables (bounded stand-in, not proof)",
    "logmath_add argument domain x, y <= -zero (no wrap in x - y); log-probabilities are <= 0 in every caller",
    "libm log/log10/pow are uninterpreted in CBMC (any double); the accuracy clauses that depend on them are decided only by the native enumeration",
    "the exact (table-less) branch logmath_add_exact is not under contract (floating point through libm)",
]
HAND_LEMMAS = ["with T0 = round(log_b 2) the bound max <= add <= max + T0 is 'never smaller than the larger argument nor larger by more than log 2'"]
NOT_COVERED = ["logmath_init loops under contract (relational termination argument between the sizing and the filling loop; covered natively under ASan for the enumerated (base, shift) pairs)"]
TRUSTED = ["native/logtable.c compares against long double log1pl/expl of the host libm"]
CLAIM = dict(
    text="logmath_add is proved against its contract for every pair of int arguments, every table width/size/shift: symmetric (up to the representation of log-zero), log-zero is the identity, max(x,y) <= result <= max(x,y)+T0, exact table lookup in range, larger argument beyond the table, no out-of-bounds read, no signed overflow. The contents of the add table and the log/exp round trip depend on libm and are decided only by exhaustive native enumeration of real tables (bounded stand-in, labelled so in the evidence).",
    note="assumed: table invariant entry[d] <= entry[0] (checked exhaustively on real logmath_init tables for listed (base,shift) pairs, bounded); argument domain x,y <= -zero; libm log/pow uninterpreted; trusted: CBMC 6.11, host libm long double as accuracy oracle",
    technique="CBMC function contract enforced with goto-instrument --dfcc over the full argument domain (loop-free); native exhaustive table enumeration as bounded stand-in")
