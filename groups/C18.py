# C18 -- finiteness and range: integer clauses only
import importlib.util, os
_spec = importlib.util.spec_from_file_location("g02", os.path.join(os.path.dirname(os.path.abspath(__file__)), "C02.py"))
_c02 = importlib.util.module_from_spec(_spec); _spec.loader.exec_module(_c02)
GROUPS = [dict(g) for g in _c02.GROUPS if g["name"].startswith("hmm_vit_eval") or g["name"] == "hmm_normalize"] + [
    dict(name="int16_float_exact", harness="harness/C18_lemmas.c", entry="r_int16_float_exact", allow_no_body=["*"],
         bounded=None),
]
NATIVE = [
    dict(name="e2e_invariants", source="native/e2e_invariants.c", repo_sources="ALL_EXCEPT:", cflags=["-w", "-fsanitize=address"],
         args={"quick": ["C18"], "thorough": ["C18"]}, exhaustive=False,
         bound="on ~25 real decodes (see C01): after every 2048-sample block the channel-normalisation text exported mid-utterance (decoder_get_cmn) equals the state in use to the printed precision"),
    dict(name="senone_score_enum", source="native/senone_score_enum.c", repo_sources="ALL_EXCEPT:", cflags=["-w", "-fsanitize=address"],
         args={"quick": [], "thorough": ["thorough"]}, exhaustive=False,
         bound="every frame of goforward.raw (en-us) and goforward_fr.raw (fr-fr), 3 rounds (thorough 12): scored through acmod_score for the senones of 1..6 random base phones (or all), "
               "then requested again after acmod_advance with a different active set; every active score in [0, 32767] and the best exactly 0; about 3 000 scorings per quick run"),
    dict(name="feature_finite_enum", source="native/feature_finite_enum.c", repo_sources="ALL_EXCEPT:", cflags=["-w", "-fsanitize=address"],
         args={"quick": [], "thorough": []}, exhaustive=True,
         bound="EVERY combination of 13 signals (silence, full-scale square waves, impulses, DC offsets, white noise, zero padding, ramp, step) x int16|float samples x "
               "transform dct|legacy|htk x cepstra|logspec|smoothspec x remove_noise x remove_dc x lifter 0|22 (x cmn live|batch|none, varnorm for the cepstral configurations): 3 744 runs of 0.5 s "
               "through the real fe_process / fe_end / feat_s2mfc2feat_live / cmn text export-import; every value checked with isfinite(); plus all 64 histories of three utterances from {silence, speech} x {full-utterance call, streamed} on a real decoder (state finite after each)"),
]
ASSUMPTIONS = [
    "path scores: the HMM invariant WF_HMM (scores WORST_SCORE or in [WORST_SCORE + 2^20, 0], senone scores in [0, 32767]) is the precondition; signed-overflow obligations are switched on in these proofs",
    "int16_float_exact is an arithmetic lemma over the scale constant of the real header (expressions as they occur in fe_read_frame_* / overflow_append), not a contract on a function",
]
HAND_LEMMAS = ["scores never wrap along a path: each step keeps every state score in [WORST_SCORE, 0] (postcondition) and fsg_search renormalises before the best score can approach WORST_SCORE + 2^20 (renormalisation NOT under contract)"]
NOT_COVERED = ["finiteness of cepstra, dynamic features and CMN state is decided only for the enumerated signal x configuration family by the native run feature_finite_enum (bounded stand-in, never counted as proved): "
               "the FFT / log / DCT pipeline is transcendental floating point over loops, outside what CBMC contracts decided here",
               "senone score range and best-score normalisation (ptm_mgau for en-us, the fr-fr scorer): decided only on two recordings with random active sets by the native run senone_score_enum (bounded, never counted as proved); ms_mgau / s2_semi_mgau only as far as the bundled models use them",
               "renormalisation of path scores in fsg_search (hmm_normalize itself, used by the state aligner, is proved: group hmm_normalize)", "dither on, warping, other sample rates / filterbank sizes, the lda transform"]
CLAIM = dict(
    text="Integer clauses only: each Viterbi step of the 3-state evaluators keeps every state and exit score clamped in [WORST_SCORE, 0] and performs no signed overflow, for all inputs satisfying the HMM invariant (same proofs as C02 with overflow obligations on); the int16 -> float32 sample scaling round trip is exact for all 65 536 sample values. Finiteness of every cepstral / dynamic-feature value and of the CMN state (with text export -> import -> export stability) is checked by a native enumeration of 13 extreme signals x 2 sample types x 144 front-end / feature configurations through the real pipeline (bounded stand-in, not proof), which found a genuine defect (batch CMN of digital silence = 0/0 -> NaN features), repaired. The 16-bit acoustic-score range and best-score normalisation are checked on every frame of two recordings for random active senone sets, including the re-request of the frame just left with a different set (bounded native run, not proof).",
    note="integer clauses by contract; feature / CMN finiteness by a bounded native enumeration of extreme signals (not proof); senone scoring not covered; trusted: CBMC 6.11, libm isfinite",
    technique="CBMC function contracts (goto-instrument --dfcc) with signed-overflow obligations; full-domain CBMC lemma over 16-bit inputs; native enumeration of extreme signals x configurations as bounded stand-in for the floating-point pipeline")
