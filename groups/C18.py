# C18 -- finiteness and range: integer clauses only
import importlib.util, os
_spec = importlib.util.spec_from_file_location("g02", os.path.join(os.path.dirname(os.path.abspath(__file__)), "C02.py"))
_c02 = importlib.util.module_from_spec(_spec); _spec.loader.exec_module(_c02)
GROUPS = [dict(g) for g in _c02.GROUPS if g["name"].startswith("hmm_vit_eval")] + [
    dict(name="int16_float_exact", harness="harness/C18_lemmas.c", entry="r_int16_float_exact", allow_no_body=["*"],
         bounded=None),
]
ASSUMPTIONS = [
    "path scores: the HMM invariant WF_HMM (scores WORST_SCORE or in [WORST_SCORE + 2^20, 0], senone scores in [0, 32767]) is the precondition; signed-overflow obligations are switched on in these proofs",
    "int16_float_exact is an arithmetic lemma over the scale constant of the real header (expressions as they occur in fe_read_frame_* / overflow_append), not a contract on a function",
]
HAND_LEMMAS = ["scores never wrap along a path: each step keeps every state score in [WORST_SCORE, 0] (postcondition) and fsg_search renormalises before the best score can approach WORST_SCORE + 2^20 (renormalisation NOT under contract)"]
NOT_COVERED = ["finiteness of cepstra and dynamic features (FFT, log, DCT: transcendental floating point over loops; seeded change C18_A)", "channel-normalisation state export/import as text", "senone score range and best-score normalisation in ptm_mgau / s2_semi_mgau (seeded change C18_B)", "hmm_normalize / renormalisation"]
CLAIM = dict(
    text="Integer clauses only: each Viterbi step of the 3-state evaluators keeps every state and exit score clamped in [WORST_SCORE, 0] and performs no signed overflow, for all inputs satisfying the HMM invariant (same proofs as C02 with overflow obligations on); the int16 -> float32 sample scaling round trip is exact for all 65 536 sample values. Finiteness of features, CMN text round trip and the 16-bit acoustic-score range are NOT decided.",
    note="integer clauses only; floating-point feature pipeline, CMN and senone scoring not covered; trusted: CBMC 6.11 float model",
    technique="CBMC function contracts (goto-instrument --dfcc) with signed-overflow obligations; full-domain CBMC lemma over 16-bit inputs")
