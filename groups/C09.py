# C09 -- API protocol: out-of-order calls return the documented error value and change nothing
H = "harness/C09_decoder.c"
def G(fn, **kw):
    d = dict(name=fn, harness=H, enforce=fn, allow_no_body=["*"], unwind=3, min_postconditions=1)
    d.update(kw)
    return d
GROUPS = [G("decoder_process_int16"), G("decoder_process_float32"), G("decoder_start_utt"), G("decoder_end_utt"),
          G("decoder_hyp"), G("decoder_seg_iter"), G("decoder_lattice"),
          dict(name="alignment_init_refcount", harness="harness/C09_refcount.c", entry="h_alignment_init", enforce="alignment_init", replace=["dict2pid_retain"], allow_no_body=["*"], min_postconditions=2),
          dict(name="alignment_free_refcount", harness="harness/C09_refcount.c", entry="h_alignment_free", enforce="alignment_free", replace=["dict2pid_free"], allow_no_body=["*"], min_postconditions=2)]
NATIVE = [
    dict(name="protocol_walk", source="native/protocol_walk.c", repo_sources="ALL_EXCEPT:", cflags=["-w", "-fsanitize=address"],
         env={"ASAN_OPTIONS": "detect_leaks=1:exitcode=1:fast_unwind_on_malloc=0"},
         args={"quick": [], "thorough": ["thorough"]}, exhaustive=False, timeout=3000,
         bound="60 pseudo-random walks (thorough 400) of 25 public API calls each on a real decoder (en-us): mostly in protocol, a fraction out of order / with empty arguments / missing files; "
               "AddressSanitizer on every call, the reference recording must decode to the reference result after every walk, LeakSanitizer at exit after decoder_free"),
    dict(name="e2e_invariants", source="native/e2e_invariants.c", repo_sources="ALL_EXCEPT:", cflags=["-w", "-fsanitize=address"],
         args={"quick": ["C09"], "thorough": ["C09"]}, exhaustive=False,
         bound="end-to-end invariants of this property on ~12 real decodes (bundled en-us / fr-fr models; goforward recordings with JSGF grammar, FSG file and forced-alignment text; one call, 2048-sample blocks with partial results, float32; digital silence; white noise) under AddressSanitizer -- a safety net under the contracts, not a proof"),
]
ASSUMPTIONS = [
    "only the guards are decided: each contract fixes an out-of-protocol state (or a missing search module) in its precondition; the in-protocol behaviour of the same entry points is not covered here",
    "every callee of decoder.c has no body in these groups: reaching one is reported as a failed obligation, which is how 'changes nothing' is checked",
    "logging macros evaluate their arguments and do nothing else (include/override/soundswallower/err.h)",
]
HAND_LEMMAS = []
NOT_COVERED = ["arbitrary in-protocol API sequences over the whole decoder object graph (no representation invariant for acmod/lextree/dictionary is within reach)", "leak freedom after the last release", "iterator life cycles (seg/hash/alignment iterators): bounded checks exist only for the hash table (C20)", "decoder_alignment, decoder_nbest, decoder_result_json guards", "the items above are NOT under contract; they are exercised only by the bounded native runs protocol_walk (60 random walks, ASan + LeakSanitizer) and e2e_invariants -- never counted as proved"]
CLAIM = dict(
    text="Typestate contracts on the public decoder entry points: with the decoder and acoustic-model objects fully symbolic, audio passed before start or after end is refused with the documented value and an empty frame (no callee reached, nothing assigned); starting twice and ending without start return -1 with an empty frame; hypothesis, segmentation and lattice requests without a search module return NULL. Reference counting of the alignment object over its dict2pid: alignment_init takes exactly one counted reference, alignment_free gives it back exactly when the last reference to the alignment is dropped (ghost call counters). Proved per entry point (loop-free in the selected case, full domain). The general statement over every API sequence is NOT decided.",
    note="guards only; in-protocol behaviour, leaks, iterator life cycles and reference counting not covered; one genuine defect (audio accepted after end_utt) found and fixed; trusted: CBMC 6.11; end-to-end invariants on ~12 real decodes by a bounded native run (native/e2e_invariants.c), never counted as proved; random API walks under ASan + LeakSanitizer (native/protocol_walk.c) as bounded stand-in for arbitrary sequences and leak freedom",
    technique="CBMC function contracts (goto-instrument --dfcc) with empty assigns clauses; callee reachability as obligations; plus a bounded native run of the property's end-to-end invariants on real decodes (safety net, not proof)")
