# C08 -- isolation: per-utterance state is reset by the start functions
GROUPS = [
    dict(name="acmod_start_utt", harness="harness/C08_acmod.c", enforce="acmod_start_utt", replace=["fe_start"], allow_no_body=["*"], min_postconditions=3),
    dict(name="fe_start", harness="harness/C08_fe.c", enforce="fe_start", replace=["fe_reset_noisestats"], allow_no_body=["*"], min_postconditions=2, unwind=18, defines=["SSW_MEMSET_LOOP"]),
    dict(name="decoder_start_utt", harness="harness/C08_decoder.c", enforce="decoder_start_utt", allow_no_body=["*"], min_postconditions=3,
         replace=["acmod_start_utt", "lattice_free", "ptmr_reset", "ptmr_start"]),
    dict(name="cmn_set_repr", harness="harness/C08_cmn.c", entry="r_cmn_set_repr", allow_no_body=["*"], unwind=8, defines=["SSW_MEMSET_LOOP"], unwindset="ssw_memset.0:14",
         replay={"name": "cmn_set_repr_replay", "harness": "harness/C08_cmn.c", "entry": "r_cmn_set_repr", "native_replay": True, "canary": False, "allow_no_body": ["*"], "unwind": 8,
                 "native_sources": "ALL", "native_exclude": ["cmn.c"]},
         bounded="3 coefficients, state texts of <= 5 characters over digits and commas, symbolic previous state; atof is a one-digit stand-in"),
]

NATIVE = [
    dict(name="e2e_invariants", source="native/e2e_invariants.c", repo_sources="ALL_EXCEPT:", cflags=["-w", "-fsanitize=address"],
         args={"quick": ["C08"], "thorough": ["C08"]}, exhaustive=False,
         bound="end-to-end invariants of this property on ~12 real decodes (bundled en-us / fr-fr models; goforward recordings with JSGF grammar, FSG file and forced-alignment text; one call, 2048-sample blocks with partial results, float32; digital silence; white noise) under AddressSanitizer -- a safety net under the contracts, not a proof"),
]
ASSUMPTIONS = [
    "callees of the start functions (fe_start inside acmod_start_utt, acmod_start_utt / lattice_free / timers inside decoder_start_utt, fe_reset_noisestats) are replaced by contracts; search-module methods reached through the v-table are stubs",
    "fe_start is checked on a frame size of 4 (the overflow buffer is cleared by a byte loop; CBMC's memset with a symbolic length mis-modelled the clear)",
]
HAND_LEMMAS = ["determinism: with every per-utterance field reset to a constant and configuration fields outside the frame, the state after *_start* is a function of the configuration only; that the RESULT is a function of that state and the audio is NOT machine checked"]
NOT_COVERED = ["fsg_search_start / fsg_history_reset / feat live-buffer reset / cmn_live state", "completeness of the field classification (a mechanical struct-field scan was planned, not built)", "two decoders in one process (writable globals scan not built)", "result determinism end to end", "the items above are NOT under contract; determinism end to end is exercised only by the bounded native runs e2e_invariants and protocol_walk (C09) on one recording -- never counted as proved"]
CLAIM = dict(
    text="Reset contracts on three start functions, with the pre-state fully symbolic: after acmod_start_utt every per-utterance field of the acoustic model object (state, both ring indices and counts, output frame, senone-score frame, active senone count, mgau frame index) has a fixed value; after fe_start the overflow buffer is empty and zeroed, pre-emphasis history cleared and noise statistics reset; after an in-protocol decoder_start_utt the previous utterance's lattice, best link, posterior, hypothesis string, JSON line and state aligner are gone and the utterance counter advanced. Setting the channel-normalisation state from text (cmn_set_repr) determines EVERY coefficient of mean and accumulator from the text alone, whatever the state before (bounded: 3 coefficients, texts <= 5 characters). Frame clauses prove nothing else is written. End-to-end isolation and determinism are NOT decided.",
    note="three reset functions only; search-level resets, CMN, field-classification completeness, globals and end-to-end determinism not covered; trusted: CBMC 6.11; end-to-end invariants on ~12 real decodes by a bounded native run (native/e2e_invariants.c), never counted as proved",
    technique="CBMC function contracts (goto-instrument --dfcc) with explicit assigns clauses over a fully symbolic pre-state; plus a bounded native run of the property's end-to-end invariants on real decodes (safety net, not proof)")
