# C07 -- buffering discipline of the acoustic-model feature ring (src/acmod.c)
H = "harness/C07_acmod.c"
GROUPS = [
    dict(name="acmod_advance", harness=H, enforce="acmod_advance", allow_no_body=["*"], min_postconditions=4),
    dict(name="calc_feat_idx", harness=H, enforce="calc_feat_idx", allow_no_body=["*"], min_postconditions=2, backends=[["--sat-solver", "cadical"]],
         bounded="ring size <= 256 frames, frame numbers <= 100000 (symbolic)"),
    dict(name="acmod_rewind", harness=H, enforce="acmod_rewind", allow_no_body=["*"], min_postconditions=3),
    dict(name="acmod_process_cep", tiers=("probe",), harness=H, enforce="acmod_process_cep", replace=["acmod_grow_feat_buf", "feat_s2mfc2feat_live"], loop_contracts=True,
         loops=["acmod_process_cep.grow"], allow_no_body=["*"], min_postconditions=3),
]

NATIVE = [
    dict(name="chunking_diff", source="native/chunking_diff.c", repo_sources="ALL_EXCEPT:", cflags=["-w", "-fsanitize=address"],
         args={"quick": [], "thorough": ["thorough"]}, exhaustive=False, timeout=3000,
         bound="about 400 decodes (thorough 560) of tests/data/goforward.raw (2.8 s) with the bundled en-us model under AddressSanitizer: one call vs fixed piece sizes 160..30000 vs a first piece of exactly k frames "
               "(k = 100..150, +-1 sample) vs a small first piece (400..5000 samples) then > 250 frames in one call; the k-sweep on a NEW decoder per run (128-frame buffers); searched as data arrives vs buffered; with / without partial results; int16 / float32; on a fresh decoder and after a full_utt utterance; "
               "hypothesis, score, segments, frame count and phone alignment must be identical to the one-call result"),
]
ASSUMPTIONS = [
    "integer level only: feature vectors are opaque; the ring is described by n_feat_alloc, feat_outidx, n_feat_frame, output_frame",
    "acmod_rewind precondition: frames consumed + frames queued fit in the allocation, or the ring has been overrun (every decoder-level caller rewinds with the ring drained or in growing mode)",
    "calc_feat_idx: ring size <= 256 and frame numbers <= 100000 (the 32-bit symbolic modulus does not finish)",
]
HAND_LEMMAS = ["frames are consumed in the order they were written: acmod_advance moves the read slot to (slot + 1) mod n and calc_feat_idx maps absolute frame f to (feat_outidx + f - output_frame) mod n, the same sequence of slots the writer fills"]
NOT_COVERED = ["the relational end-to-end statement (identical results under re-chunking) is NOT provable by per-function contracts (it relates two whole executions); it is decided only by the bounded native differential run chunking_diff "
               "(one recording, one model, about 400 partitions) -- never counted as proved",
               "acmod_process_cep (writer side of the feature ring; contract written in contracts/acmod.contracts.h, tier 'probe': not all obligations discharged) and the feat_s2mfc2feat_live live buffer are NOT under contract",
               "cepstra ring (mfc_buf) two-part writes, acmod_process_full_*, fr-fr model, other recordings / grammars, partial results compared only through their absence of side effects"]
CLAIM = dict(
    text="Reader side of the feature ring buffer only: acmod_advance is proved to move the read slot to the next slot of the ring, consume exactly one frame, never wrap in growing mode and preserve the ring invariant; acmod_rewind restores exactly consumed+queued frames from slot 0 and refuses an overrun ring; calc_feat_idx maps an absolute frame to (feat_outidx + f - output_frame) mod n and refuses frames the ring no longer holds (bounded ring size). That decoding results are identical under re-chunking is NOT decided; the writer side (acmod_process_cep) is not claimed. The end-to-end clause is checked by a bounded native differential run: the real decoder decodes one recording in about 400 different ways (piece sizes, a first piece of exactly k frames around the 128-frame buffer size on a new decoder, buffered vs immediate search, partial results, int16 vs float32, before and after a full_utt utterance) under AddressSanitizer, and hypothesis, scores, segments, frame count and phone alignment must equal the one-call result. It found a genuine defect (a first chunk shorter than one frame changed the result), repaired in /repo.",
    note="reader side of the ring only; writer side, live feature buffer and the relational end-to-end statement not covered; trusted: CBMC 6.11; end-to-end clause by a bounded native differential run (not proof)",
    technique="CBMC function contracts (goto-instrument --dfcc), loop-free integer code over the full state space of the ring; bounded native differential run of the real decoder over ~400 partitions of one recording as stand-in for the relational clause")
