# C07 -- buffering discipline of the acoustic-model feature ring (src/acmod.c)
H = "harness/C07_acmod.c"
GROUPS = [
    dict(name="acmod_advance", harness=H, enforce="acmod_advance", allow_no_body=["*"], min_postconditions=4),
    dict(name="calc_feat_idx", harness=H, enforce="calc_feat_idx", allow_no_body=["*"], min_postconditions=2, backends=[["--sat-solver", "cadical"]],
         bounded="ring size <= 256 frames, frame numbers <= 100000 (symbolic)"),
    dict(name="acmod_rewind", harness=H, enforce="acmod_rewind", allow_no_body=["*"], min_postconditions=3),
    dict(name="acmod_process_cep", tiers=("probe",), harness=H, enforce="acmod_process_cep", replace=["acmod_grow_feat_buf", "feat_s2mfc2feat_live"], loop_contracts=True,
         loops=["acmod_process_cep.grow"], allow_no_body=["*"], min_postconditions=3),
]

ASSUMPTIONS = [
    "integer level only: feature vectors are opaque; the ring is described by n_feat_alloc, feat_outidx, n_feat_frame, output_frame",
    "acmod_rewind precondition: frames consumed + frames queued fit in the allocation, or the ring has been overrun (every decoder-level caller rewinds with the ring drained or in growing mode)",
    "calc_feat_idx: ring size <= 256 and frame numbers <= 100000 (the 32-bit symbolic modulus does not finish)",
]
HAND_LEMMAS = ["frames are consumed in the order they were written: acmod_advance moves the read slot to (slot + 1) mod n and calc_feat_idx maps absolute frame f to (feat_outidx + f - output_frame) mod n, the same sequence of slots the writer fills"]
NOT_COVERED = ["end-to-end equality of hypotheses / scores under re-chunking (relational over two whole executions)", "acmod_process_cep (writer side of the ring; contract written in contracts/acmod.contracts.h, tier 'probe': its obligations are not all discharged and the failing ones are not understood well enough to call them either defects or specification errors -- seeded change C07_A is NOT detected)", "feat_s2mfc2feat_live live buffer (seeded change C07_B)", "cepstra ring (mfc_buf), acmod_process_raw/mfcbuf", "observations from the unfinished acmod_process_cep contract (counterexamples of CBMC, NOT reproduced natively, reachable at most through the acmod-level API because decoder_process_* drains the ring after every call and never offers more cepstra than the ring holds): (1) with unread frames reaching the ring end and a request larger than the free space, the two-part write uses the unclamped frame count and overwrites unread frames; (2) if feat_s2mfc2feat_live consumes fewer cepstra than offered in the first part of a two-part write, the second part starts before the ring end and can run past the allocation; (3) at the end of an utterance with a wrapped write the function returns 0 although it dropped the offered cepstra"]
CLAIM = dict(
    text="Reader side of the feature ring buffer only: acmod_advance is proved to move the read slot to the next slot of the ring, consume exactly one frame, never wrap in growing mode and preserve the ring invariant; acmod_rewind restores exactly consumed+queued frames from slot 0 and refuses an overrun ring; calc_feat_idx maps an absolute frame to (feat_outidx + f - output_frame) mod n and refuses frames the ring no longer holds (bounded ring size). That decoding results are identical under re-chunking is NOT decided; the writer side (acmod_process_cep) is not claimed.",
    note="reader side of the ring only; writer side, live feature buffer and the relational end-to-end statement not covered; trusted: CBMC 6.11",
    technique="CBMC function contracts (goto-instrument --dfcc), loop-free integer code over the full state space of the ring")
