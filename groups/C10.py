# C10 -- untrusted text inputs (tokenisers in s3file.c, dictionary reader, phone-string parser)
HD = "harness/C10_dict_read.c"
H17 = "harness/C17_s3file.c"
NB17 = ["mmio_file_read", "mmio_file_unmap", "mmio_file_ptr", "mmio_file_size", "strncmp", "strlen", "ssw_memcpy", "ssw_memmove"]
GROUPS = [
    dict(name="dict_read_text_4", harness=HD, entry="r_dict_read", defines=["DLEN=4"], allow_no_body=["*"], unwind=6, backends=[["--sat-solver", "cadical"]], unwind_is_obligation=True,
         replay={"name": "dict_read_replay", "harness": HD, "entry": "r_dict_read", "defines": ["DLEN=4"], "native_replay": True, "canary": False, "allow_no_body": ["*"], "unwind": 6,
                 "native_sources": "ALL", "native_exclude": ["dict.c", "s3file.c", "strfuncs.c", "bin_mdef.c"]},
         bounded="dictionary texts of <= 4 symbolic bytes (all line/word/comment shapes that fit), real tokenisers; non-termination within the bound is a violation"),
    dict(name="s3file_nextline", harness=H17, enforce="s3file_nextline", loop_contracts=True, loops=["s3file_nextline.scan"], defines=["SSW_NO_MEM_STUBS", "S3_ELSZ=4"], allow_no_body=NB17, min_postconditions=3),
    dict(name="s3file_nextword", harness=H17, enforce="s3file_nextword", loop_contracts=True, loops=["s3file_nextword.skip", "s3file_nextword.word", "s3file_nextword.trail"],
         min_loop_steps=3, defines=["SSW_NO_MEM_STUBS", "S3_ELSZ=4"], allow_no_body=NB17, min_postconditions=2),
]
