# C10 -- untrusted text inputs (tokenisers in s3file.c, dictionary reader, phone-string parser)
HD = "harness/C10_dict_read.c"
H17 = "harness/C17_s3file.c"
NB17 = ["mmio_file_read", "mmio_file_unmap", "mmio_file_ptr", "mmio_file_size", "strncmp", "strlen", "ssw_memcpy", "ssw_memmove"]
H16 = "harness/C16_decoder_add_word.c"
GROUPS = [
    dict(name="decoder_add_word_parser", harness=H16, entry="r_decoder_add_word", unwind=5, defines=["PLEN=3"], canary=True,
         allow_no_body=["*"], bounded="word/pronunciation pairs: phone strings of <= 3 characters with symbolic content (every write of a phone id must stay inside the id buffer; empty word / pronunciation rejected)"),
    dict(name="dict_read_text_4", tiers=("probe",), harness=HD, entry="r_dict_read", defines=["DLEN=4"], allow_no_body=["*"], unwind=6, backends=[["--sat-solver", "cadical"]], unwind_is_obligation=True,
         replay={"name": "dict_read_replay", "harness": HD, "entry": "r_dict_read", "defines": ["DLEN=4"], "native_replay": True, "canary": False, "allow_no_body": ["*"], "unwind": 6,
                 "native_sources": "ALL", "native_exclude": ["dict.c", "s3file.c", "strfuncs.c", "bin_mdef.c"]},
         bounded="dictionary texts of <= 4 symbolic bytes (all line/word/comment shapes that fit), real tokenisers; non-termination within the bound is a violation"),
    dict(name="s3file_nextline", harness=H17, enforce="s3file_nextline", loop_contracts=True, loops=["s3file_nextline.scan"], defines=["SSW_NO_MEM_STUBS", "S3_ELSZ=4"], allow_no_body=NB17, min_postconditions=3),
    dict(name="s3file_nextword", harness=H17, enforce="s3file_nextword", loop_contracts=True, loops=["s3file_nextword.skip", "s3file_nextword.word", "s3file_nextword.trail"],
         min_loop_steps=3, defines=["SSW_NO_MEM_STUBS", "S3_ELSZ=4"], allow_no_body=NB17, min_postconditions=2),
]

NATIVE = [
    dict(name="text_input_enum", source="native/text_input_enum.c", repo_sources="ALL_EXCEPT:", cflags=["-w", "-fsanitize=address", "-Dexit=ssw_exit"],
         args={"quick": [], "thorough": ["thorough"]}, exhaustive=True, timeout=3000,
         bound="EVERY token sequence of bounded length through the real parsers, exact-size heap blocks under AddressSanitizer, exit()/abort()/hangs trapped, returned objects used and freed: "
               "FSG text (21 tokens, <= 4 after FSG_BEGIN, thorough 5), JSON configuration (12 tokens, <= 5, thorough 6), JSGF (20 tokens after the header, <= 4, thorough 5); about 660 000 texts per quick run"),
    dict(name="dict_text_enum", source="native/dict_text_enum.c", repo_sources="ALL_EXCEPT:dict.c,ckd_alloc.c", cflags=["-w", "-fsanitize=address"],
         args={"quick": [], "thorough": ["thorough"]}, exhaustive=True,
         bound="EVERY dictionary text of <= 5 bytes (thorough 6) over a 10-letter alphabet (phones, lower case, space, newline, #, ;, parentheses, digit): 111 111 texts through the real dict_read_s3file / tokenisers / dict_add_word / hash table, exact-size heap blocks under AddressSanitizer, exit() trapped"),
]
ASSUMPTIONS = [
    "tokenisers: file view of <= 1 000 000 bytes (contracts shared with C17)",
    "dictionary reader: exhaustive native enumeration (bounded stand-in, not proof); a CBMC run of the same harness (tier probe) exhausted memory",
    "phone lookup is a stub in the bounded runs (upper-case letters are phones)",
]
HAND_LEMMAS = []
NOT_COVERED = ["the JSGF scanner / parser (3 700 lines of generated table-driven code), fsg_model_read_s3file and config_parse_json are NOT under contract; they are decided by the exhaustive token-sequence enumeration text_input_enum (bounded stand-in, never counted as proved)",
               "texts outside the token families or longer than the stated number of tokens; arbitrary BYTE sequences for JSGF / FSG / JSON (only the dictionary reader is enumerated byte-wise)",
               "decoder_set_align_text", "cmn_set_repr (see C08)", "key=value (non-JSON) configuration strings beyond the bare tokens of the JSON family"]
CLAIM = dict(
    text="The line and word tokenisers that every text reader is built on (s3file_nextline, s3file_nextword) are proved with loop invariants and termination to stay inside the text for inputs of any length up to 1 MB. decoder_add_word's phone-string parser is checked by CBMC on every phone string of <= 3 characters (bounded). The dictionary reader is checked by exhaustive native enumeration of all 111 111 texts of <= 5 bytes over a 10-letter alphabet under AddressSanitizer with exit() trapped (bounded stand-in), which found two genuine defects (fixed). The FSG reader, the JSON configuration parser and the JSGF parser + compiler are checked by exhaustive native enumeration of every token sequence of bounded length (about 660 000 texts per quick run) in exact-size heap blocks under AddressSanitizer with exit(), abort() and hangs trapped, and every returned object is used and freed (bounded stand-in, not proof); it found one more genuine defect (FSG reader running strtol off the end of an in-memory file), fixed.",
    note="tokeniser proofs + bounded parser check + native exhaustive enumerations (dictionary bytes; FSG / JSON / JSGF token sequences) as bounded stand-ins; trusted: CBMC 6.11, ASan",
    technique="CBMC function + loop contracts (goto-instrument --dfcc) for the tokenisers; CBMC bounded run for the phone parser; native exhaustive enumerations as bounded stand-ins for the dictionary reader and the FSG / JSON / JSGF parsers")
