# C04 -- alignment hierarchy (src/ps_alignment.c)
H = "harness/C04_alignment.c"
RP = {"name": "alignment_propagate_replay", "harness": H, "entry": "r_alignment_propagate", "native_replay": True, "canary": False, "allow_no_body": ["*"], "unwind": 7,
      "native_sources": "ALL", "native_exclude": ["ps_alignment.c"]}
GROUPS = [
    dict(name="vector_grow_one", harness=H, enforce="vector_grow_one", replace=["__ckd_realloc__"], defines=["VERIF_REALLOC_CONTRACT"], allow_no_body=["*"], min_postconditions=2, backends=[["--sat-solver", "cadical"]]),
    dict(name="alignment_propagate", harness=H, entry="r_alignment_propagate", allow_no_body=["*"], unwind=7, replay=RP,
         bounded="<= 4 states under <= 3 phones under <= 2 words, symbolic durations / scores / start frames and stale parent values, every parent shape with non-decreasing parent indices"),
]
NATIVE = [
    dict(name="e2e_invariants", source="native/e2e_invariants.c", repo_sources="ALL_EXCEPT:", cflags=["-w", "-fsanitize=address"],
         args={"quick": ["C04"], "thorough": ["C04"]}, exhaustive=False,
         bound="end-to-end invariants of this property on ~12 real decodes (bundled en-us / fr-fr models; goforward recordings with JSGF grammar, FSG file and forced-alignment text; one call, 2048-sample blocks with partial results, float32; digital silence; white noise) under AddressSanitizer -- a safety net under the contracts, not a proof"),
]
ASSUMPTIONS = [
    "alignment_propagate precondition: parent indices are non-decreasing, start at 0 and every parent has a child (what alignment_populate builds; alignment_populate itself is not under contract)",
    "vector_grow_one: item size 40 bytes (sizeof(alignment_entry_t)), block of 8 entries or empty; ckd_realloc is the libc stub",
]
HAND_LEMMAS = ["children partition their parent's frames: with contiguous child intervals (established by state_align_search_finish, not under contract) the sum of child durations is the parent's duration, which alignment_propagate is checked to compute"]
NOT_COVERED = ["alignment_populate (phones of a word = dictionary pronunciation)", "state_align_search_finish backtrace (contiguity, positive durations)", "agreement of words / boundaries with the first-pass segmentation (decoder_alignment; the stale-aligner reuse of seeded change C04_B is detected by the C08 reset contract instead)", "word score = acoustic part of the first-pass score (cross-pass numeric relation, not contractible)", "the items above are NOT under contract; on real decodes they (except the word score = first-pass acoustic score relation, which does not hold on the unchanged tree and is not checked) are exercised only by the bounded native run e2e_invariants -- never counted as proved"]
CLAIM = dict(
    text="vector_grow_one is proved (loop-free): the entry count never exceeds the capacity, the new slot lies inside the (re)allocated block, and the 16-bit limit is reported by NULL with nothing changed. alignment_propagate is checked by CBMC on the real function over every hierarchy of <= 4 states / 3 phones / 2 words with symbolic values, including stale parent values from an earlier pass and single-child parents: a parent's duration and score are the sums over its children and it starts where its first child starts (bounded). The end-to-end clauses (same words / start frames / durations as the first pass, dictionary phones, emitting states, partition and contiguity at every level, score sums) are checked by a bounded native run on real decodes, for final results and -- since the property quantifies over them -- for alignments requested on partial results after every streamed block (which found and now guards the repaired partial-result defects D30 / D31). The hierarchy construction (populate, backtrace) is NOT under contract.",
    note="vector capacity proof + bounded propagate check; populate, backtrace and agreement with the first pass not covered; trusted: CBMC 6.11; end-to-end invariants on ~12 real decodes by a bounded native run (native/e2e_invariants.c), never counted as proved",
    technique="CBMC function contract (goto-instrument --dfcc) for vector_grow_one; CBMC bounded unwinding with unwinding assertions for alignment_propagate; plus a bounded native run of the property's end-to-end invariants on real decodes (safety net, not proof)")
