#include <soundswallower/fsg_model.h>
#include <soundswallower/err.h>
/* map view of trans[from].null_trans for one witness key (the 'to' state) */
extern hash_table_t verif_ht_obj; extern int32 verif_mk; extern int verif_mpresent; extern fsg_link_t verif_mlink; extern fsg_link_t verif_other;
extern int verif_entered; extern int32 verif_entered_key; extern void *verif_entered_val;
extern fsg_link_t verif_newlink;
int32 hash_table_lookup_bkey(hash_table_t *h, const char *key, size_t len, void **val)
__CPROVER_requires(h == &verif_ht_obj && len == sizeof(int32) && __CPROVER_r_ok(key, len) && __CPROVER_w_ok(val, sizeof(void*)))
__CPROVER_assigns(*val)
__CPROVER_ensures(*(const int32 *)key == verif_mk ==> ((__CPROVER_return_value == 0) == (verif_mpresent != 0) && __CPROVER_return_value <= 0 && __CPROVER_return_value >= -1))
__CPROVER_ensures(__CPROVER_return_value == 0 || __CPROVER_return_value == -1)
__CPROVER_ensures(__CPROVER_return_value == 0 ==> __CPROVER_pointer_equals(*val, *(const int32 *)key == verif_mk ? (void*)&verif_mlink : (void*)&verif_other))
;
void *hash_table_enter_bkey(hash_table_t *h, const char *key, size_t len, void *val)
__CPROVER_requires(h == &verif_ht_obj && len == sizeof(int32) && __CPROVER_r_ok(key, len))
__CPROVER_requires(*(const int32 *)key != verif_mk || !verif_mpresent)   /* only used for absent keys here */
__CPROVER_assigns(verif_entered, verif_entered_key, verif_entered_val)
__CPROVER_ensures(verif_entered == __CPROVER_old(verif_entered) + 1 && verif_entered_key == *(const int32 *)key && verif_entered_val == val)
__CPROVER_ensures(__CPROVER_return_value == val)
;
hash_table_t *hash_table_new(int32 size, int32 casearg)
__CPROVER_requires(1) __CPROVER_assigns() __CPROVER_ensures(__CPROVER_return_value == &verif_ht_obj);
void *__listelem_malloc__(listelem_alloc_t *le, char *file, int line)
__CPROVER_requires(1) __CPROVER_assigns() __CPROVER_ensures(__CPROVER_return_value == &verif_newlink);
void err_msg(err_lvl_t lvl, const char *path, long ln, const char *fmt, ...) __CPROVER_requires(1) __CPROVER_ensures(1) __CPROVER_assigns();
void exit(int c) { __CPROVER_assert(0, "process exit reachable"); __CPROVER_assume(0); }

#include "/repo/src/fsg_model.c"
hash_table_t verif_ht_obj; int32 verif_mk; int verif_mpresent; fsg_link_t verif_mlink, verif_other, verif_newlink; int verif_entered; int32 verif_entered_key; void *verif_entered_val;

int32 fsg_model_tag_trans_add(fsg_model_t *fsg, int32 from, int32 to, int32 logp, int32 wid)
__CPROVER_requires(__CPROVER_is_fresh(fsg, sizeof(*fsg)) && fsg->n_state >= 1 && fsg->n_state <= 1000)
__CPROVER_requires(__CPROVER_is_fresh(fsg->trans, (size_t)fsg->n_state * sizeof(trans_list_t)))
__CPROVER_requires(0 <= from && from < fsg->n_state && 0 <= to && to < fsg->n_state)
__CPROVER_requires(fsg->trans[from].null_trans == NULL || fsg->trans[from].null_trans == &verif_ht_obj)
__CPROVER_requires(fsg->trans[from].null_trans == NULL ==> !verif_mpresent)
__CPROVER_requires(logp <= 0)
__CPROVER_requires(verif_mlink.from_state == from && verif_mlink.to_state == verif_mk && verif_mlink.wid == -1 && verif_entered == 0)
__CPROVER_assigns(fsg->trans[from].null_trans, verif_mlink.logs2prob, verif_other.logs2prob, verif_newlink, verif_entered, verif_entered_key, verif_entered_val)
/* self loop: nothing */
__CPROVER_ensures(from == to ==> (__CPROVER_return_value == -1 && verif_entered == 0 && verif_mlink.logs2prob == __CPROVER_old(verif_mlink.logs2prob)))
/* witness key is the touched one */
__CPROVER_ensures((from != to && to == verif_mk && __CPROVER_old(verif_mpresent)) ==> (verif_entered == 0 && verif_mlink.logs2prob == (__CPROVER_old(verif_mlink.logs2prob) < logp ? logp : __CPROVER_old(verif_mlink.logs2prob)) && __CPROVER_return_value == (__CPROVER_old(verif_mlink.logs2prob) < logp ? 0 : -1)))
__CPROVER_ensures((from != to && to == verif_mk && !__CPROVER_old(verif_mpresent)) ==> (verif_entered == 1 && verif_entered_key == to && verif_entered_val == &verif_newlink && verif_newlink.from_state == from && verif_newlink.to_state == to && verif_newlink.logs2prob == logp && verif_newlink.wid == -1 && __CPROVER_return_value == 1))
/* witness key is another one: untouched */
__CPROVER_ensures(to != verif_mk ==> (verif_mlink.logs2prob == __CPROVER_old(verif_mlink.logs2prob) && (verif_entered == 0 || verif_entered_key != verif_mk)))
;
void h(void){ fsg_model_t *f; int32 a,b,c,d; fsg_model_tag_trans_add(f,a,b,c,d);} 
