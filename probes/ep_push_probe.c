#include "/repo/src/ps_endpointer.c"
int g_k; /* ghost sample witness */
#define EP_WF(ep) ((ep)->maxlen >= 2 && (ep)->maxlen <= 1000 && (ep)->frame_size >= 1 && (ep)->frame_size <= 1440 \
   && 0 <= (ep)->pos && (ep)->pos < (ep)->maxlen && 0 <= (ep)->n && (ep)->n <= (ep)->maxlen)
static int ep_push(endpointer_t *ep, int is_speech, const int16 *frame)
__CPROVER_requires(__CPROVER_is_fresh(ep, sizeof(*ep)) && EP_WF(ep))
__CPROVER_requires(__CPROVER_is_fresh(ep->buf, (size_t)ep->maxlen * ep->frame_size * sizeof(int16)))
__CPROVER_requires(__CPROVER_is_fresh(ep->is_speech, ep->maxlen))
__CPROVER_requires(__CPROVER_is_fresh(frame, (size_t)ep->frame_size * sizeof(int16)))
__CPROVER_requires(is_speech == 0 || is_speech == 1)
__CPROVER_requires(0 <= g_k && g_k < ep->frame_size)
__CPROVER_assigns(ep->pos, ep->n, ep->qstart_time, __CPROVER_object_whole(ep->buf), __CPROVER_object_whole(ep->is_speech))
__CPROVER_ensures(EP_WF(ep))
__CPROVER_ensures(__CPROVER_old(ep->n) == ep->maxlen ? (ep->n == ep->maxlen && ep->pos == (__CPROVER_old(ep->pos) + 1) % ep->maxlen && ep->qstart_time == __CPROVER_old(ep->qstart_time) + ep->frame_length)
                                        : (ep->n == __CPROVER_old(ep->n) + 1 && ep->pos == __CPROVER_old(ep->pos) && ep->qstart_time == __CPROVER_old(ep->qstart_time)))
__CPROVER_ensures(ep->buf[((__CPROVER_old(ep->pos) + __CPROVER_old(ep->n)) % ep->maxlen) * ep->frame_size + g_k] == frame[g_k])
__CPROVER_ensures(ep->is_speech[(__CPROVER_old(ep->pos) + __CPROVER_old(ep->n)) % ep->maxlen] == is_speech)
__CPROVER_ensures(__CPROVER_return_value == ep->n)
;
void h(void){ endpointer_t *ep; int s; const int16 *f; ep_push(ep, s, f);} 
