#include <stddef.h>
void *memcpy(void *dst, const void *src, size_t n)
__CPROVER_requires(__CPROVER_w_ok(dst, n) && __CPROVER_r_ok(src, n))
__CPROVER_assigns(__CPROVER_object_whole(dst))
__CPROVER_ensures(__CPROVER_return_value == dst)
;
#include "/repo/src/fe_interface.c"
#define FS 410
#define SH 160
int g_room; /* ghost: samples available at *spch */
static int overflow_append(fe_t *fe, void *inout_spch, size_t *inout_nsamps, fe_encoding_t encoding)
__CPROVER_requires(__CPROVER_is_fresh(fe, sizeof(*fe)))
__CPROVER_requires(fe->frame_size == FS && fe->frame_shift == SH && fe->num_overflow_samps >= 0 && fe->num_overflow_samps <= FS)
__CPROVER_requires(__CPROVER_is_fresh(fe->overflow_samps, FS * sizeof(float32)))
__CPROVER_requires(__CPROVER_is_fresh(inout_nsamps, sizeof(size_t)))
__CPROVER_requires(*inout_nsamps + fe->num_overflow_samps < FS)
__CPROVER_requires(encoding == FE_FLOAT32)
__CPROVER_requires(__CPROVER_is_fresh(inout_spch, sizeof(float32 *)))
__CPROVER_requires(__CPROVER_is_fresh(*(float32 **)inout_spch, FS * sizeof(float32)))
__CPROVER_assigns(fe->num_overflow_samps, __CPROVER_object_whole(fe->overflow_samps), *inout_nsamps, *(float32 **)inout_spch)
__CPROVER_ensures(__CPROVER_return_value == 0)
__CPROVER_ensures(fe->num_overflow_samps == __CPROVER_old(fe->num_overflow_samps) + (int)__CPROVER_old(*inout_nsamps))
__CPROVER_ensures(*inout_nsamps == 0)
__CPROVER_ensures(*(float32 **)inout_spch == __CPROVER_old(*(float32 **)inout_spch) + __CPROVER_old(*inout_nsamps))
;
void h2(void){ fe_t *fe; void *sp; size_t *n; fe_encoding_t e; overflow_append(fe, sp, n, e);} 
