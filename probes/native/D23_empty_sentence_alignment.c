/* D23: a grammar that accepts the empty sentence (tests/data/pizza.gram: everything optional) and an utterance without
 * audio give an empty, non-NULL hypothesis; decoder_alignment() (and decoder_result_json with align_level > 0) then built
 * a state aligner over zero HMMs and state_align_search_start() wrote to hmms[0]: heap-buffer-overflow (ASan).  C09. */
#include <stdio.h>
#include <soundswallower/decoder.h>
#include <soundswallower/configuration.h>
int main(void)
{
    config_t *c = config_init(NULL); decoder_t *d;
    config_set_str(c, "hmm", "/repo/model/en-us"); config_set_str(c, "loglevel", "FATAL");
    d = decoder_init(c);
    decoder_set_jsgf_file(d, "/repo/tests/data/pizza.gram");
    decoder_start_utt(d); decoder_end_utt(d);
    printf("hyp=\"%s\"\n", decoder_hyp(d, NULL) ? decoder_hyp(d, NULL) : "(null)");
    printf("alignment=%p\n", (void *)decoder_alignment(d));     /* overflow before the fix */
    return 0;
}
