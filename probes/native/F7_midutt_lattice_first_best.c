/* Baseline observation for C11 (NOT a seed): on the unchanged tree, while the
 * first-best hypothesis is still a single word instance starting at frame 0
 * (here <sil> 0..5) but other word instances already exist, the lattice is built
 * from the other instances and the first-best segmentation is not a path of it
 * (a node starting at frame 0 has no entries, so find_end_node() never selects it
 * as an end node).  pizza.gram + goforward.raw, default beams, lattice requested
 * after 11, 12 and 13 chunks of 160 samples.  Exits 1 when the violation is seen. */
#include "config.h"
#include <stdio.h>
#include <stdlib.h>
#include <string.h>
#include <soundswallower/decoder.h>
#include <soundswallower/lattice.h>
#include <soundswallower/search_module.h>
#include <soundswallower/fsg_search.h>
#include <soundswallower/fsg_model.h>
#include <soundswallower/dict.h>

#define ROOT "/repo"
#define MAXN 20000

static int n_viol = 0;
static int verbose = 0;
#define VIOL(...) do { ++n_viol; printf("  VIOLATION: " __VA_ARGS__); printf("\n"); } while (0)

static int is_synth(latnode_t *n) { return n->node_id == -1; }

/* Is there a word arc labelled `word` into state `to` leaving `from` (directly or
 * after one null transition -- the FSG holds the null closure)? */
static int
arc_ok(fsg_model_t *fsg, int from, const char *word, int to)
{
    fsg_arciter_t *it, *it2;
    int ok = 0;
    for (it = fsg_model_arcs(fsg, from); it; it = fsg_arciter_next(it)) {
        fsg_link_t *l = fsg_arciter_get(it);
        if (l->wid >= 0) {
            if (l->to_state == to && 0 == strcmp(fsg_model_word_str(fsg, l->wid), word))
                ok = 1;
        } else {
            for (it2 = fsg_model_arcs(fsg, l->to_state); it2; it2 = fsg_arciter_next(it2)) {
                fsg_link_t *l2 = fsg_arciter_get(it2);
                if (l2->wid >= 0 && l2->to_state == to
                    && 0 == strcmp(fsg_model_word_str(fsg, l2->wid), word))
                    ok = 1;
            }
        }
    }
    return ok;
}

typedef struct { const char *w; int sf, ef; } segw_t;

static int
match_path(lattice_t *dag, latnode_t *node, segw_t *segs, int i, int n)
{
    latlink_list_t *x;
    /* node must be word i */
    if (node->sf != segs[i].sf || 0 != strcmp(dict_wordstr(dag->dict, node->wid), segs[i].w))
        return 0;
    if (i == n - 1) {
        if (segs[i].ef < node->fef || segs[i].ef > node->lef)
            return 0;
        if (node == dag->end)
            return 1;
        for (x = node->exits; x; x = x->next)
            if (x->link->to == dag->end && is_synth(dag->end))
                return 1;
        return 0;
    }
    for (x = node->exits; x; x = x->next) {
        if (x->link->to == NULL || is_synth(x->link->to))
            continue;
        if (x->link->to->sf != segs[i].ef + 1)
            continue;
        if (match_path(dag, x->link->to, segs, i + 1, n))
            return 1;
    }
    return 0;
}

static int
check_lattice(decoder_t *ps, const char *tag)
{
    fsg_search_t *fsgs = (fsg_search_t *)ps->search;
    fsg_model_t *fsg = fsgs->fsg;
    lattice_t *dag, *dag2;
    latnode_t *node, *nodes[MAXN];
    int n = 0, i, v0 = n_viol;
    int nframes = fsgs->frame;
    static int indeg[MAXN], fwd[MAXN], bwd[MAXN];
    seg_iter_t *seg;
    segw_t segs[256];
    int nseg = 0;
    const char *hyp;

    hyp = decoder_hyp(ps, NULL);
    dag = decoder_lattice(ps);
    dag2 = decoder_lattice(ps);
    printf("[%s] frames=%d hyp='%s' dag=%s\n", tag, nframes, hyp ? hyp : "(null)", dag ? "yes" : "NULL");
    if (dag != dag2)
        VIOL("second request returned a different object");
    if (dag == NULL)
        return -1;
    if (lattice_n_frames(dag) != nframes)
        VIOL("n_frames %d != %d", lattice_n_frames(dag), nframes);

    for (node = dag->nodes; node; node = node->next) {
        if (n >= MAXN) { printf("too many nodes\n"); exit(3); }
        nodes[n] = node;
        if (node->id != n) VIOL("node id %d at position %d", node->id, n);
        ++n;
    }
    printf("   %d nodes, start=%s.%d end=%s.%d\n", n,
           dict_wordstr(dag->dict, dag->start->wid), dag->start->sf,
           dict_wordstr(dag->dict, dag->end->wid), dag->end->sf);
    /* start / end */
    {
        int fs = 0, fe = 0;
        for (i = 0; i < n; ++i) { if (nodes[i] == dag->start) fs = 1; if (nodes[i] == dag->end) fe = 1; }
        if (!fs) VIOL("start node not in node list");
        if (!fe) VIOL("end node not in node list");
        if (!fs || !fe) return -1;
    }
    if (dag->start->entries) VIOL("start node has entries");
    if (dag->end->exits) VIOL("end node has exits");
    for (i = 0; i < n; ++i) {
        latlink_list_t *x;
        node = nodes[i];
        indeg[i] = 0; fwd[i] = bwd[i] = 0;
        if (node != dag->start && node->entries == NULL)
            VIOL("extra source node %s.%d(st %d)", dict_wordstr(dag->dict, node->wid), node->sf, node->node_id);
        if (node != dag->end && node->exits == NULL)
            VIOL("extra sink node %s.%d(st %d)", dict_wordstr(dag->dict, node->wid), node->sf, node->node_id);
        if (node->sf < 0 || node->sf > nframes) VIOL("node sf %d out of range", node->sf);
        if (!is_synth(node) && (node->fef < node->sf || node->lef < node->fef || node->lef >= nframes))
            VIOL("node %s.%d bad fef/lef %d/%d", dict_wordstr(dag->dict, node->wid), node->sf, node->fef, node->lef);
        for (x = node->exits; x; x = x->next) {
            latlink_t *l = x->link;
            latlink_list_t *y;
            int found = 0;
            if (l->from != node) { VIOL("exit link from != node"); continue; }
            if (l->to == NULL) { VIOL("dangling exit link"); continue; }
            if (l->to->id < 0 || l->to->id >= n || nodes[l->to->id] != l->to) { VIOL("link to node not in list"); continue; }
            for (y = l->to->entries; y; y = y->next) if (y->link == l) found++;
            if (found != 1) VIOL("link appears %d times in dest entries", found);
            if (is_synth(node)) {
                /* synthetic start: epsilon */
            } else if (is_synth(l->to)) {
                /* synthetic end */
                if (node->lef != nframes - 1) VIOL("link to synthetic end from node with lef %d", node->lef);
            } else {
                if (l->ef + 1 != l->to->sf)
                    VIOL("link %s.%d -> %s.%d has ef %d", dict_wordstr(dag->dict, node->wid), node->sf,
                         dict_wordstr(dag->dict, l->to->wid), l->to->sf, l->ef);
                if (l->ef < node->sf || l->ef >= nframes || l->ef < node->fef || l->ef > node->lef)
                    VIOL("link ef %d outside node %s.%d [%d..%d]", l->ef, dict_wordstr(dag->dict, node->wid), node->sf, node->fef, node->lef);
            }
            /* grammar */
            if (!is_synth(l->to)) {
                int from_state = is_synth(node) ? fsg->start_state : node->node_id;
                if (!arc_ok(fsg, from_state, dict_wordstr(dag->dict, l->to->wid), l->to->node_id))
                    VIOL("no grammar arc %d -%s-> %d (after %s.%d)", from_state,
                         dict_wordstr(dag->dict, l->to->wid), l->to->node_id,
                         dict_wordstr(dag->dict, node->wid), node->sf);
            }
        }
        for (x = node->entries; x; x = x->next) {
            latlink_t *l = x->link;
            latlink_list_t *y;
            int found = 0;
            if (l->to != node) { VIOL("entry link to != node"); continue; }
            if (l->from == NULL) { VIOL("dangling entry link"); continue; }
            if (l->from->id < 0 || l->from->id >= n || nodes[l->from->id] != l->from) { VIOL("link from node not in list"); continue; }
            for (y = l->from->exits; y; y = y->next) if (y->link == l) found++;
            if (found != 1) VIOL("link appears %d times in source exits", found);
            indeg[i]++;
        }
    }
    if (!is_synth(dag->start)) {
        if (dag->start->sf != 0) VIOL("start node sf %d", dag->start->sf);
        if (!arc_ok(fsg, fsg->start_state, dict_wordstr(dag->dict, dag->start->wid), dag->start->node_id))
            VIOL("start node word not an arc from grammar start");
    }
    /* reachability */
    {
        int stack[MAXN], sp = 0;
        latlink_list_t *x;
        stack[sp++] = dag->start->id; fwd[dag->start->id] = 1;
        while (sp) { int k = stack[--sp]; for (x = nodes[k]->exits; x; x = x->next) if (x->link->to && !fwd[x->link->to->id]) { fwd[x->link->to->id] = 1; stack[sp++] = x->link->to->id; } }
        stack[sp++] = dag->end->id; bwd[dag->end->id] = 1;
        while (sp) { int k = stack[--sp]; for (x = nodes[k]->entries; x; x = x->next) if (x->link->from && !bwd[x->link->from->id]) { bwd[x->link->from->id] = 1; stack[sp++] = x->link->from->id; } }
        for (i = 0; i < n; ++i) {
            if (!fwd[i]) VIOL("node %s.%d(st %d) not reachable from start", dict_wordstr(dag->dict, nodes[i]->wid), nodes[i]->sf, nodes[i]->node_id);
            if (!bwd[i]) VIOL("node %s.%d(st %d) cannot reach end", dict_wordstr(dag->dict, nodes[i]->wid), nodes[i]->sf, nodes[i]->node_id);
        }
    }
    /* acyclic: Kahn */
    {
        int stack[MAXN], sp = 0, done = 0;
        latlink_list_t *x;
        for (i = 0; i < n; ++i) if (indeg[i] == 0) stack[sp++] = i;
        while (sp) { int k = stack[--sp]; ++done; for (x = nodes[k]->exits; x; x = x->next) if (x->link->to && --indeg[x->link->to->id] == 0) stack[sp++] = x->link->to->id; }
        if (done != n) VIOL("lattice has a cycle (%d of %d nodes sorted)", done, n);
    }
    /* first best */
    for (seg = decoder_seg_iter(ps); seg; seg = seg_iter_next(seg)) {
        int sf, ef;
        const char *w = seg_iter_word(seg);
        seg_iter_frames(seg, &sf, &ef);
        if (0 == strcmp(w, "(NULL)")) continue;
        segs[nseg].w = w; segs[nseg].sf = sf; segs[nseg].ef = ef; ++nseg;
        if (verbose) printf("   seg %s %d %d\n", w, sf, ef);
    }
    if (nseg > 0) {
        int ok = 0;
        latlink_list_t *x;
        if (is_synth(dag->start)) {
            for (x = dag->start->exits; x; x = x->next)
                if (match_path(dag, x->link->to, segs, 0, nseg)) ok = 1;
        } else
            ok = match_path(dag, dag->start, segs, 0, nseg);
        if (!ok) {
            VIOL("first-best segmentation is not a path of the lattice");
            for (i = 0; i < nseg; ++i) printf("      %s %d %d\n", segs[i].w, segs[i].sf, segs[i].ef);
        }
    }
    if (verbose > 1)
        for (i = 0; i < n; ++i) {
            latlink_list_t *x;
            printf("   node %d %s sf %d fef %d lef %d st %d:", i, dict_wordstr(dag->dict, nodes[i]->wid), nodes[i]->sf, nodes[i]->fef, nodes[i]->lef, nodes[i]->node_id);
            for (x = nodes[i]->exits; x; x = x->next) printf(" ->%d@%d", x->link->to->id, x->link->ef);
            printf("\n");
        }
    return n_viol - v0;
}


/* ---- label-only path check: every lattice path must spell a grammar path ---- */
#define MAXST 512
typedef struct { unsigned long long b[MAXST/64]; } sset_t;
static int ss_empty(sset_t *s){int i;for(i=0;i<MAXST/64;i++) if(s->b[i]) return 0; return 1;}
static int ss_eq(sset_t *a,sset_t *b){return 0==memcmp(a,b,sizeof(*a));}
static void ss_set(sset_t *s,int i){s->b[i/64]|=1ULL<<(i%64);}
static int ss_has(sset_t *s,int i){return (s->b[i/64]>>(i%64))&1;}
static void
ss_step(fsg_model_t *fsg, sset_t *in, const char *word, sset_t *out)
{
    int s;
    fsg_arciter_t *it, *it2;
    memset(out, 0, sizeof(*out));
    for (s = 0; s < fsg->n_state; ++s) {
        if (!ss_has(in, s)) continue;
        for (it = fsg_model_arcs(fsg, s); it; it = fsg_arciter_next(it)) {
            fsg_link_t *l = fsg_arciter_get(it);
            if (l->wid >= 0) {
                if (0 == strcmp(fsg_model_word_str(fsg, l->wid), word)) ss_set(out, l->to_state);
            } else {
                for (it2 = fsg_model_arcs(fsg, l->to_state); it2; it2 = fsg_arciter_next(it2)) {
                    fsg_link_t *l2 = fsg_arciter_get(it2);
                    if (l2->wid >= 0 && 0 == strcmp(fsg_model_word_str(fsg, l2->wid), word)) ss_set(out, l2->to_state);
                }
            }
        }
    }
}
typedef struct pc_s { latnode_t *node; sset_t set; int parent; } pc_t;
static int
check_paths(decoder_t *ps)
{
    fsg_search_t *fsgs = (fsg_search_t *)ps->search;
    fsg_model_t *fsg = fsgs->fsg;
    lattice_t *dag = decoder_lattice(ps);
    pc_t *q; int qh = 0, qt = 0, cap = 200000, bad = 0, i;
    sset_t s0, s1;
    if (dag == NULL) return 0;
    if (fsg->n_state > MAXST) { printf("grammar too big\n"); exit(3); }
    q = calloc(cap, sizeof(*q));
    memset(&s0, 0, sizeof(s0)); ss_set(&s0, fsg->start_state);
    if (is_synth(dag->start)) s1 = s0;
    else ss_step(fsg, &s0, dict_wordstr(dag->dict, dag->start->wid), &s1);
    q[qt].node = dag->start; q[qt].set = s1; q[qt].parent = -1; ++qt;
    while (qh < qt && !bad) {
        pc_t cur = q[qh]; latlink_list_t *x;
        if (ss_empty(&cur.set)) {
            int k, stack[1024], sp = 0;
            ++bad;
            for (k = qh; k >= 0; k = q[k].parent) stack[sp++] = k;
            printf("  VIOLATION: lattice path spells a word sequence the grammar does not allow:\n     ");
            while (sp) { k = stack[--sp]; printf(" %s.%d", dict_wordstr(dag->dict, q[k].node->wid), q[k].node->sf); }
            printf("\n"); ++n_viol;
            break;
        }
        ++qh;
        for (x = cur.node->exits; x; x = x->next) {
            latnode_t *to = x->link->to; int dup = 0;
            if (to == NULL || is_synth(to)) continue;
            ss_step(fsg, &cur.set, dict_wordstr(dag->dict, to->wid), &s1);
            for (i = 0; i < qt; ++i) if (q[i].node == to && ss_eq(&q[i].set, &s1)) { dup = 1; break; }
            if (dup) continue;
            if (qt >= cap) { printf("path check queue overflow\n"); exit(3); }
            q[qt].node = to; q[qt].set = s1; q[qt].parent = qh - 1; ++qt;
        }
    }
    free(q);
    return bad;
}


int
main(void)
{
    decoder_t *ps;
    config_t *config = config_init(NULL);
    FILE *fh; int16 buf[160]; size_t nread; int k = 0; char t[64];
    config_set_str(config, "jsgf", ROOT "/tests/data/pizza.gram");
    config_set_str(config, "loglevel", "FATAL");
    config_set_str(config, "samprate", "16000");
    config_set_str(config, "input_endian", "little");
    config_set_str(config, "hmm", ROOT "/model/en-us");
    ps = decoder_init(config);
    fh = fopen(ROOT "/tests/data/goforward.raw", "rb");
    decoder_start_utt(ps);
    verbose = 1;
    while ((nread = fread(buf, 2, 160, fh)) > 0 && k < 14) {
        decoder_process_int16(ps, buf, nread, FALSE, FALSE);
        ++k;
        if (k >= 11 && k <= 13) { sprintf(t, "chunk %d", k); check_lattice(ps, t); }
    }
    fclose(fh);
    decoder_end_utt(ps);
    decoder_free(ps);
    printf("violations: %d\n", n_viol);
    return n_viol != 0;
}
