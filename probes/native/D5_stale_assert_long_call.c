/* D5: one streaming call with more than ~53 000 samples (3.3 s) aborts builds with assertions enabled (the default
 * CMake build): the 128-frame cepstrum buffer limits fe_process_int16, more than 32 767 samples remain, and the stale
 * assert(*inout_nsamps <= MAX_INT16) in create_overflow_frame() fires (num_overflow_samps has long been an int and the
 * amount copied is clamped to one frame shift).  tests/data/pizza-float32.raw is 57 344 samples. */
#include <stdio.h>
#include <stdlib.h>
#include <soundswallower/decoder.h>
#include <soundswallower/configuration.h>
int main(void)
{
    static short pcm[60000];
    config_t *c = config_init(NULL);
    decoder_t *d;
    config_set_str(c, "hmm", "/repo/model/en-us"); config_set_str(c, "loglevel", "FATAL");
    d = decoder_init(c);
    decoder_set_jsgf_file(d, "/repo/tests/data/goforward.gram");
    decoder_start_utt(d);
    decoder_process_int16(d, pcm, 60000, 0, 0);     /* aborts before the fix */
    decoder_end_utt(d);
    printf("survived\n");
    return 0;
}
