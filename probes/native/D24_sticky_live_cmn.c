/* D24: feat_cmn() permanently overwrote the configured CMN type with CMN_LIVE on the first streamed call: a later
 * full-utterance (batch) decode no longer got batch normalization and its result depended on the CMN state left by
 * earlier utterances ("full no-set" after "stream set" gave -2740 instead of -2761).  C08. */
#include <stdio.h>
#include <stdlib.h>
#include <soundswallower/decoder.h>
#include <soundswallower/configuration.h>
static short pcm[70000]; static size_t n;
static int dec(decoder_t *d, int setcmn, int full) { int32 s; if (setcmn) decoder_set_cmn(d, "40,3,-1,0,0,0,0,0,0,0,0,0,0"); decoder_start_utt(d); decoder_process_int16(d, pcm, n, 0, full); decoder_end_utt(d); decoder_hyp(d, &s); return s; }
int main(void)
{
    FILE *f = fopen("/repo/tests/data/goforward.raw", "rb"); n = fread(pcm, 2, 70000, f);
    config_t *c = config_init(NULL); decoder_t *d;
    config_set_str(c, "hmm", "/repo/model/en-us"); config_set_str(c, "loglevel", "FATAL");
    d = decoder_init(c); decoder_set_jsgf_file(d, "/repo/tests/data/goforward.gram");
    printf("full no-set: %d\n", dec(d, 0, 1));
    printf("full no-set: %d\n", dec(d, 0, 1));
    printf("full set:    %d\n", dec(d, 1, 1));
    printf("full no-set: %d\n", dec(d, 0, 1));
    printf("stream set:  %d\n", dec(d, 1, 0));
    printf("full no-set: %d\n", dec(d, 0, 1));
    printf("cmn type: %s\n", config_str(decoder_config(d), "cmn"));
    return 0;
}
