#include <soundswallower/decoder.h>
#include <stdio.h>
int main(void) {
    config_t *config = config_init(NULL);
    config_set_str(config, "hmm", "/repo/model/en-us");
    config_set_str(config, "loglevel", "FATAL");
    decoder_t *d = decoder_init(config);
    printf("add: %d\n", decoder_add_word(d, "stst", "S T", 0));
    return 0;
}
