#include <soundswallower/decoder.h>
#include <soundswallower/dict.h>
#include <stdio.h>
int main(int argc, char **argv) {
    config_t *config = config_init(NULL);
    config_set_str(config, "hmm", "/repo/model/en-us");
    config_set_str(config, "dict", argv[1]);
    config_set_str(config, "loglevel", "FATAL");
    decoder_t *d = decoder_init(config);
    dict_t *dict = d->dict;
    int hello = dict_wordid(dict, "hello");
    printf("hello=%d alt=%d n_word=%d\n", hello, dict_nextalt(dict, hello), dict_size(dict));
    printf("add hello(2): %d\n", decoder_add_word(d, "hello(2)", "HH EH L OW", 0));
    printf("hello alt=%d n_word=%d\n", dict_nextalt(dict, hello), dict_size(dict));
    printf("add hello(2) again: %d\n", decoder_add_word(d, "hello(2)", "HH EH L OW", 0));
    printf("after rejected add: hello alt=%d n_word=%d  (alt should be unchanged)\n", dict_nextalt(dict, hello), dict_size(dict));
    printf("add zebra: %d\n", decoder_add_word(d, "zebra", "W ER L D", 0));
    int a = dict_nextalt(dict, hello);
    printf("hello alt=%d -> '%s'\n", a, a >= 0 ? dict_wordstr(dict, a) : "-");
    /* D6: audio after end_utt; D2: JSON */
    decoder_set_jsgf_string(d, "#JSGF V1.0; grammar g; public <a> = hello world;");
    static int16 buf[8000];
    printf("process before start: %d\n", decoder_process_int16(d, buf, 8000, 0, 0));
    decoder_start_utt(d);
    printf("process in utt: %d\n", decoder_process_int16(d, buf, 8000, 0, 0));
    decoder_end_utt(d);
    printf("process after end: %d (documented: error/0)\n", decoder_process_int16(d, buf, 8000, 0, 0));
    return 0;
}
