#include <soundswallower/decoder.h>
#include <stdio.h>
int main(int argc, char **argv) {
    config_t *config = config_init(NULL);
    config_set_str(config, "hmm", "/repo/model/en-us");
    config_set_str(config, "dict", argv[1]);
    config_set_str(config, "loglevel", "ERROR");
    decoder_t *d = decoder_init(config);
    printf("decoder_init returned %p\n", (void *)d);
    if (d && argc > 2) {
        int rv = decoder_set_jsgf_string(d, argv[2]);
        printf("set_jsgf_string rv=%d\n", rv);
    }
    return 0;
}
