/* D27: jsgf_read_string / jsgf_read_file picked the LAST rule of a grammar without any public rule (the loop variable
 * doubled as the result) and compiled it, instead of reporting "No public rules found".  C05 refusal clause. */
#include <stdio.h>
#include <soundswallower/jsgf.h>
#include <soundswallower/logmath.h>
int main(void)
{
    logmath_t *lm = logmath_init(1.0001, 0, 1);
    fsg_model_t *f = jsgf_read_string("#JSGF V1.0;\ngrammar g;\n<a> = hello;\n<b> = world;\n", lm, 1.0f);
    printf("grammar without a public rule -> %s\n", f ? "COMPILED" : "refused");
    return f != NULL;
}
