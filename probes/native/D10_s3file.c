#include <stdio.h>
#include <stdlib.h>
#include <string.h>
#include <soundswallower/s3file.h>
#include <soundswallower/ckd_alloc.h>
int main(int argc, char **argv)
{
    int which = atoi(argv[1]);
    if (which == 1) { /* 2-byte file: strncmp(line, "s3\n", 3) reads past the buffer */
        char *b = malloc(2); b[0] = 's'; b[1] = '3';
        s3file_t *s = s3file_init(b, 2);
        int r = s3file_parse_header(s, NULL);
        printf("parse_header -> %d\n", r);
    } else if (which == 2) { /* array count 0 -> E_FATAL */
        unsigned char b[8] = {0,0,0,0, 1,2,3,4};
        s3file_t *s = s3file_init(b, 8); void *buf; uint32 n;
        long r = s3file_get_1d(&buf, 4, &n, s);
        printf("get_1d -> %ld\n", r);
    } else if (which == 3) { /* huge count -> calloc failure -> exit */
        unsigned char b[8] = {0xff,0xff,0xff,0x7f, 1,2,3,4};
        s3file_t *s = s3file_init(b, 8); void *buf; uint32 n;
        long r = s3file_get_1d(&buf, 8, &n, s);
        printf("get_1d -> %ld\n", r);
    } else if (which == 4) { /* dims 1000x1000 but 2 elements of data: assert / wild row pointers */
        uint32 w[5] = {1000, 1000, 2, 7, 8};
        s3file_t *s = s3file_init(w, sizeof w); void **arr; uint32 d1, d2;
        long r = s3file_get_2d(&arr, 4, &d1, &d2, s);
        printf("get_2d -> %ld d1=%u d2=%u\n", r, d1, d2);
        if (r >= 0) printf("arr[999][999]=%d\n", ((int **)arr)[999][999]);
    }
    return 0;
}
