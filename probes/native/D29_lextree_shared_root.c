/* Unchanged-tree observation: psubtree_add_trans() gives a multi-phone word ONE root
 * node (the model for the first left context in the list) and adds every other left
 * context to it, even when the model definition has a different senone sequence. */
#include <stdio.h>
#include <soundswallower/decoder.h>
#include <soundswallower/fsg_search.h>
#include <soundswallower/fsg_lextree.h>
#include <soundswallower/dict2pid.h>
#include <soundswallower/err.h>
#define ROOT "/repo"
int main(void)
{
    static const char *words[] = { "go", "forward", "ten", "meters" };
    config_t *c = config_init(NULL);
    decoder_t *d; fsg_model_t *fsg; fsg_search_t *fs; fsg_pnode_t *root; bin_mdef_t *m;
    int i, s, lc, bad = 0;
    err_set_loglevel(ERR_ERROR);
    config_set_str(c, "hmm", ROOT "/model/en-us");
    config_set_str(c, "dict", ROOT "/tests/data/turtle.dic");
    config_set_str(c, "loglevel", "ERROR");
    d = decoder_init(c);
    fsg = fsg_model_init("x", decoder_logmath(d), 1.0f, 5);
    fsg->start_state = 0; fsg->final_state = 4;
    for (i = 0; i < 4; ++i)
        fsg_model_trans_add(fsg, i, i + 1, 0, fsg_model_word_add(fsg, words[i]));
    decoder_set_fsg(d, fsg);
    fs = (fsg_search_t *)d->search; m = d->acmod->mdef;
    for (s = 0; s < 4; ++s) {
        int32 wid = dict_wordid(d->dict, words[s]);
        int ci = dict_first_phone(d->dict, wid), rc = dict_second_phone(d->dict, wid);
        for (root = fsg_lextree_root(fs->lextree, s); root; root = root->sibling) {
            if (root->leaf || root->ci_ext != ci) continue; /* skip filler loops */
            for (lc = 0; lc < bin_mdef_n_ciphone(m); ++lc) {
                if (!(root->ctxt.bv[lc >> 5] & (1u << (lc & 31)))) continue;
                int want = dict2pid_ldiph_lc(d->d2p, ci, rc, lc);
                int got = hmm_nonmpx_ssid(&root->hmm);
                printf("state %d word %-8s first phone %s(%s,%s): model definition ssid %d, root node ssid %d%s\n",
                       s, words[s], bin_mdef_ciphone_str(m, ci), bin_mdef_ciphone_str(m, lc),
                       bin_mdef_ciphone_str(m, rc), want, got, want == got ? "" : "   <-- WRONG MODEL");
                bad |= (want != got);
            }
        }
    }
    return bad;
}
