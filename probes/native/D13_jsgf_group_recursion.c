#include <stdio.h>
#include <soundswallower/jsgf.h>
#include <soundswallower/fsg_model.h>
#include <soundswallower/logmath.h>
#include <soundswallower/err.h>
int main(){ logmath_t *lm = logmath_init(1.0001,0,1); err_set_loglevel(ERR_ERROR);
 const char *gs[] = {"#JSGF V1.0;\ngrammar g;\npublic <s> = [ <s> ] a | b;\n", "#JSGF V1.0;\ngrammar g;\npublic <s> = ( a <s> ) b | b;\n", "#JSGF V1.0;\ngrammar g;\npublic <s> = a [ b <s> ];\n", "#JSGF V1.0;\ngrammar g;\npublic <s> = ( <s> | a ) b;\n"};
 for (int i=0;i<4;i++){ jsgf_t *j = jsgf_parse_string(gs[i], NULL); fsg_model_t *f = jsgf_build_fsg(j, jsgf_get_public_rule(j), lm, 1.0); printf("%d: %s -> %s\n", i, gs[i]+22, f?"COMPILED":"refused"); if (f) fsg_model_write(f, stdout);} return 0; }
