#include <stdio.h>
#include <stdlib.h>
#include <string.h>
#include <soundswallower/decoder.h>
#include <soundswallower/configuration.h>
int main(int argc, char **argv)
{
    config_t *c = config_init(NULL); decoder_t *d; int mode = atoi(argv[1]);
    config_set_str(c, "hmm", "/repo/model/en-us"); config_set_str(c, "loglevel", "FATAL");
    if (mode == 0) { FILE *f = fopen("/tmp/t1/pw/uw.fsg", "w"); fputs("FSG_BEGIN g\nNUM_STATES 2\nSTART_STATE 0\nFINAL_STATE 1\nTRANSITION 0 1 1.0 zzyzzx\nFSG_END\n", f); fclose(f); config_set_str(c, "fsg", "/tmp/t1/pw/uw.fsg"); }
    d = decoder_init(c);
    printf("mode %d: decoder_init -> %p\n", mode, (void *)d);
    if (!d) return 0;
    if (mode == 1) printf("set_jsgf_string -> %d\n", decoder_set_jsgf_string(d, "#JSGF V1.0;\ngrammar g;\npublic <s> = go zzyzzx;\n"));
    if (mode == 2) printf("set_align_text -> %d\n", decoder_set_align_text(d, "go zzyzzx"));
    decoder_free(d);
    return 0;
}
