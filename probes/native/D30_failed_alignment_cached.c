/* Common checker for property C04 */
#include <stdio.h>
#include <stdlib.h>
#include <string.h>
#include <soundswallower.h>
#include <soundswallower/decoder.h>
#include <soundswallower/alignment.h>
#include <soundswallower/state_align_search.h>
#include <soundswallower/dict.h>
#include <soundswallower/bin_mdef.h>
#include <soundswallower/ckd_alloc.h>
#include <soundswallower/err.h>

#define ROOT "/repo"
static int nfail = 0;
#define FAIL(...) do { printf("VIOLATION: " __VA_ARGS__); printf("\n"); ++nfail; } while (0)

static short *
read_audio(const char *path, int skip, long *nsamp)
{
    FILE *fh = fopen(path, "rb");
    short *data;
    if (!fh) { perror(path); exit(0); }
    fseek(fh, 0, SEEK_END);
    *nsamp = (ftell(fh) - skip) / 2;
    fseek(fh, skip, SEEK_SET);
    data = malloc(*nsamp * 2);
    if (fread(data, 2, *nsamp, fh) != (size_t)*nsamp) exit(0);
    fclose(fh);
    return data;
}

/* Check structure of alignment against the first-pass segmentation
 * of the decoder. check_scores: also check the score clauses */
static void
check_alignment(decoder_t *d, alignment_t *al, const char *tag, int verbose)
{
    dict_t *dict = d->dict;
    bin_mdef_t *mdef = d->acmod->mdef;
    seg_iter_t *seg;
    alignment_iter_t *w, *p, *s;
    int nw = 0, wend = 0, pend = 0, send = 0, i;
    int n_emit = bin_mdef_n_emit_state(mdef);

    /* words == first pass segmentation (dictionary words only) */
    w = alignment_words(al);
    for (seg = decoder_seg_iter(d); seg; seg = seg_iter_next(seg)) {
        int sf, ef, start, dur;
        int32 wid = dict_wordid(dict, seg_iter_word(seg));
        if (wid == BAD_S3WID)
            continue;
        seg_iter_frames(seg, &sf, &ef);
        if (w == NULL) {
            FAIL("%s: alignment has fewer words than segmentation (missing %s)", tag, seg_iter_word(seg));
            continue;
        }
        alignment_iter_seg(w, &start, &dur);
        if (alignment_iter_get(w)->id.wid != wid)
            FAIL("%s: word %d is %s, segmentation has %s", tag, nw, alignment_iter_name(w), seg_iter_word(seg));
        if (start != sf || dur != ef - sf + 1)
            FAIL("%s: word %d %s start/dur %d/%d, segmentation %d/%d", tag, nw,
                 seg_iter_word(seg), start, dur, sf, ef - sf + 1);
        ++nw;
        w = alignment_iter_next(w);
    }
    if (w != NULL) {
        FAIL("%s: alignment has more words than segmentation", tag);
        alignment_iter_free(w);
    }
    /* hierarchy */
    for (w = alignment_words(al); w; w = alignment_iter_next(w)) {
        int wstart, wdur, wscore, np = 0, pscoresum = 0, pp;
        int32 wid = alignment_iter_get(w)->id.wid;
        wscore = alignment_iter_seg(w, &wstart, &wdur);
        if (verbose) printf("%s: W %s %d %d %d\n", tag, alignment_iter_name(w), wstart, wdur, wscore);
        if (wstart != wend) FAIL("%s: word %s starts at %d, expected %d", tag, alignment_iter_name(w), wstart, wend);
        if (wdur <= 0) FAIL("%s: word %s duration %d", tag, alignment_iter_name(w), wdur);
        wend = wstart + wdur;
        pp = wstart;
        for (p = alignment_iter_children(w); p; p = alignment_iter_next(p)) {
            int pstart, pdur, pscore, ns = 0, sscoresum = 0, sp;
            alignment_entry_t *pe = alignment_iter_get(p);
            pscore = alignment_iter_seg(p, &pstart, &pdur);
            if (verbose) printf("%s:   P %s %d %d %d\n", tag, alignment_iter_name(p), pstart, pdur, pscore);
            if (np >= dict_pronlen(dict, wid))
                FAIL("%s: word %s has too many phones", tag, dict_wordstr(dict, wid));
            else if (pe->id.pid.cipid != dict_pron(dict, wid, np))
                FAIL("%s: word %s phone %d is %s, dictionary has %s", tag, dict_wordstr(dict, wid), np,
                     alignment_iter_name(p), bin_mdef_ciphone_str(mdef, dict_pron(dict, wid, np)));
            if (pstart != pend) FAIL("%s: phone %s (word %s) starts at %d, expected %d (global contiguity)", tag, alignment_iter_name(p), dict_wordstr(dict, wid), pstart, pend);
            if (pstart != pp) FAIL("%s: phone %s (word %s) starts at %d, expected %d (partition)", tag, alignment_iter_name(p), dict_wordstr(dict, wid), pstart, pp);
            if (pdur <= 0) FAIL("%s: phone %s (word %s) duration %d", tag, alignment_iter_name(p), dict_wordstr(dict, wid), pdur);
            pend = pstart + pdur;
            pp = pstart + pdur;
            sp = pstart;
            for (s = alignment_iter_children(p); s; s = alignment_iter_next(s)) {
                int sstart, sdur, sscore;
                alignment_entry_t *se = alignment_iter_get(s);
                sscore = alignment_iter_seg(s, &sstart, &sdur);
                if (verbose) printf("%s:     S %s %d %d %d\n", tag, alignment_iter_name(s), sstart, sdur, sscore);
                if (ns < n_emit && se->id.senid != bin_mdef_sseq2sen(mdef, pe->id.pid.ssid, ns))
                    FAIL("%s: state %d of phone %s is senone %d, expected %d", tag, ns, alignment_iter_name(p),
                         se->id.senid, bin_mdef_sseq2sen(mdef, pe->id.pid.ssid, ns));
                if (sstart != send) FAIL("%s: state %d of phone %s (word %s) starts at %d, expected %d (global contiguity)", tag, ns, alignment_iter_name(p), dict_wordstr(dict, wid), sstart, send);
                if (sstart != sp) FAIL("%s: state %d of phone %s (word %s) starts at %d, expected %d (partition)", tag, ns, alignment_iter_name(p), dict_wordstr(dict, wid), sstart, sp);
                if (sdur <= 0) FAIL("%s: state %d of phone %s (word %s) duration %d", tag, ns, alignment_iter_name(p), dict_wordstr(dict, wid), sdur);
                send = sstart + sdur;
                sp = sstart + sdur;
                sscoresum += sscore;
                ++ns;
            }
            if (ns != n_emit) FAIL("%s: phone %s has %d states, expected %d", tag, alignment_iter_name(p), ns, n_emit);
            if (sp != pstart + pdur) FAIL("%s: states of phone %s (word %s) end at %d, phone ends at %d", tag, alignment_iter_name(p), dict_wordstr(dict, wid), sp, pstart + pdur);
            if (sscoresum != pscore) FAIL("%s: phone %s (word %s) score %d != sum of states %d", tag, alignment_iter_name(p), dict_wordstr(dict, wid), pscore, sscoresum);
            pscoresum += pscore;
            ++np;
        }
        if (np != dict_pronlen(dict, wid)) FAIL("%s: word %s has %d phones, dictionary has %d", tag, dict_wordstr(dict, wid), np, dict_pronlen(dict, wid));
        if (pp != wstart + wdur) FAIL("%s: phones of word %s end at %d, word ends at %d", tag, dict_wordstr(dict, wid), pp, wstart + wdur);
        if (pscoresum != wscore) FAIL("%s: word %s score %d != sum of phones %d", tag, dict_wordstr(dict, wid), wscore, pscoresum);
    }
    (void)i;
}
/* Unchanged-tree finding: after a partial-result alignment fails, the next
 * decoder_alignment() call (no new audio) returns the half-built alignment. */
int main(int argc, char **argv)
{
    config_t *config = config_init(NULL);
    decoder_t *d;
    alignment_t *al, *al2;
    long nsamp, pos; short *data;
    int chunk = 4000;
    err_set_loglevel(ERR_ERROR);
    config_set_str(config, "loglevel", "ERROR");
    config_set_str(config, "hmm", ROOT "/model/en-us");
    config_set_int(config, "samprate", 8000);
    d = decoder_init(config);
    decoder_set_align_text(d, "he was not an ill disposed young man");
    data = read_audio(ROOT "/tests/data/sense_and_sensibility_01_austen_64kb-0880.wav", 44, &nsamp);
    decoder_start_utt(d);
    for (pos = 0; pos < nsamp; pos += chunk) {
        long n = nsamp - pos < chunk ? nsamp - pos : chunk;
        decoder_process_int16(d, data + pos, n, FALSE, FALSE);
        al = decoder_alignment(d);
        if (al == NULL) {
            printf("frame %d: alignment failed (NULL); asking again:\n", d->acmod->output_frame);
            al2 = decoder_alignment(d);
            if (al2) { printf("  second call returned an alignment\n"); check_alignment(d, al2, "retry", 0); }
        }
    }
    decoder_end_utt(d);
    printf("nfail %d\n", nfail);
    return nfail != 0;
}
