/* D14: batch CMN on digital silence divides by zero: every frame is skipped as "zero energy" (C0 < 0), nframe == 0,
 * mean = 0/0 = NaN, every feature becomes NaN.  Reachable through the public API with the bundled models
 * (feat_params.json: "cmn": "current" == batch) whenever a whole utterance of zeros is processed.
 * cc -DHAVE_CONFIG_H -I/repo/include -I/repo/_build D14_batch_cmn_silence.c <all of /repo/src> -lm */
#include <stdio.h>
#include <math.h>
#include <soundswallower/cmn.h>
#include <soundswallower/ckd_alloc.h>
int main(void)
{
    cmn_t *c = cmn_init(13);
    mfcc_t **mfc = (mfcc_t **)ckd_calloc_2d(5, 13, sizeof(mfcc_t));
    int f, i, bad = 0;
    for (f = 0; f < 5; f++) for (i = 0; i < 13; i++) mfc[f][i] = i == 0 ? -27.0f : 0.5f;   /* C0 < 0: "zero energy" */
    cmn(c, mfc, 0, 5);
    for (f = 0; f < 5; f++) for (i = 0; i < 13; i++) if (!isfinite(mfc[f][i])) bad++;
    printf("%d non-finite values after batch CMN of 5 silent frames (mean[0] = %g)\n", bad, c->cmn_mean[0]);
    return bad != 0;
}
