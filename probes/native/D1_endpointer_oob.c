#include "/repo/src/ps_endpointer.c"
#include <math.h>
#include <stdio.h>
int main(void) {
    endpointer_t *ep = endpointer_init(0, 0, 0, 16000, 0.03);
    int fs = endpointer_frame_size(ep);
    int16 *frame = malloc(fs * sizeof(int16));
    double ph = 0; int t, k, seen = 0;
    for (t = 0; t < 200; ++t) {
        for (k = 0; k < fs; ++k) { /* voiced-like pulse train with formant-ish harmonics */
            ph += 2 * M_PI * 140.0 / 16000;
            double v = 0.5 * sin(ph) + 0.3 * sin(5 * ph) + 0.2 * sin(11 * ph) + 0.15 * sin(17 * ph);
            frame[k] = (int16)(12000 * v);
        }
        const int16 *out = endpointer_process(ep, frame);
        if (endpointer_in_speech(ep)) seen++;
        if (seen > 30) break;
    }
    printf("in_speech=%d after %d frames maxlen=%d pos=%d n=%d\n", endpointer_in_speech(ep), t, ep->maxlen, ep->pos, ep->n);
    size_t nout;
    endpointer_end_stream(ep, frame, 0, &nout);
    printf("after end_stream: pos=%d n=%d nout=%zu\n", ep->pos, ep->n, nout);
    endpointer_process(ep, frame);   /* next stream on the same object */
    printf("survived\n");
    return 0;
}
