/* D15: a first piece of audio shorter than one analysis window (e.g. 400 samples, or a 160-sample streaming block)
 * produced no cepstra, but acmod_process_cep() still left the ACMOD_STARTED state; the next call then skipped the
 * start-of-utterance replication in feat_s2mfc2feat_live() and the first feature frames were computed from stale ring
 * contents: score -2911 instead of -2875 for tests/data/goforward.raw.  See native/chunking_diff.c (C07). */
#include <stdio.h>
#include <stdlib.h>
#include <soundswallower/decoder.h>
#include <soundswallower/configuration.h>
static int decode(decoder_t *d, short *pcm, size_t n, size_t first)
{
    int32 score;
    decoder_set_cmn(d, "40,3,-1,0,0,0,0,0,0,0,0,0,0");
    decoder_start_utt(d);
    if (first) decoder_process_int16(d, pcm, first, 0, 0);
    decoder_process_int16(d, pcm + first, n - first, 0, 0);
    decoder_end_utt(d);
    decoder_hyp(d, &score);
    return score;
}
int main(void)
{
    static short pcm[50000];
    FILE *f = fopen("/repo/tests/data/goforward.raw", "rb");
    size_t n = fread(pcm, 2, 50000, f);
    config_t *c = config_init(NULL);
    decoder_t *d;
    int a, b;
    config_set_str(c, "hmm", "/repo/model/en-us");
    config_set_str(c, "loglevel", "FATAL");
    config_set_str(c, "cmn", "live");
    d = decoder_init(c);
    decoder_set_jsgf_file(d, "/repo/tests/data/goforward.gram");
    a = decode(d, pcm, n, 0);
    b = decode(d, pcm, n, 400);
    printf("one call: %d, 400 samples + rest: %d\n", a, b);
    return a != b;
}
