#include <stdio.h>
#include <soundswallower/decoder.h>
#include <soundswallower/configuration.h>
int main(void)
{
    static short pcm[50000]; FILE *f = fopen("/repo/tests/data/goforward.raw", "rb"); size_t n = fread(pcm, 2, 50000, f);
    config_t *c = config_init(NULL); decoder_t *d;
    config_set_str(c, "hmm", "/repo/model/en-us"); config_set_str(c, "loglevel", "FATAL");
    d = decoder_init(c);
    decoder_add_word(d, "f\"or\\ward", "F AO R W ER D", 1);
    decoder_set_jsgf_string(d, "#JSGF V1.0;\ngrammar g;\npublic <s> = go f\"or\\ward ten meters;\n");
    decoder_start_utt(d); decoder_process_int16(d, pcm, n, 0, 1); decoder_end_utt(d);
    printf("%s", decoder_result_json(d, 0, 1));
    return 0;
}
