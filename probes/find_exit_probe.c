#include <soundswallower/fsg_history.h>
/* ghost single-cell view of the history table */
extern fsg_hist_entry_t verif_cell; extern int32 verif_cell_id;
extern fsg_link_t verif_lcell;
extern fsg_hist_entry_t verif_wit; extern fsg_link_t verif_wlink; extern int32 verif_w;
extern int32 verif_hist_n;
extern fsg_history_t *verif_h;

int32 fsg_history_n_entries(fsg_history_t *h)
__CPROVER_requires(h == verif_h)
__CPROVER_ensures(__CPROVER_return_value == verif_hist_n)
__CPROVER_assigns();

fsg_hist_entry_t *fsg_history_entry_get(fsg_history_t *h, int32 id)
__CPROVER_requires(h == verif_h && 0 <= id && id < verif_hist_n)
__CPROVER_assigns(verif_cell, verif_lcell, verif_cell_id)
__CPROVER_ensures(__CPROVER_return_value == &verif_cell && verif_cell_id == id)
__CPROVER_ensures(verif_cell.fsglink == NULL || __CPROVER_pointer_equals(verif_cell.fsglink, &verif_lcell))
__CPROVER_ensures(id == 0 || verif_cell.fsglink != NULL)
__CPROVER_ensures(verif_cell.frame >= -1 && verif_cell.pred >= -1 && verif_cell.pred < id)
__CPROVER_ensures(id == verif_w ==> (verif_cell.frame == verif_wit.frame && verif_cell.score == verif_wit.score && verif_cell.pred == verif_wit.pred && ((verif_cell.fsglink == NULL) == (verif_wit.fsglink == NULL)) && (verif_cell.fsglink == NULL || verif_lcell.to_state == verif_wlink.to_state && verif_lcell.from_state == verif_wlink.from_state && verif_lcell.wid == verif_wlink.wid)))
;

void err_msg(err_lvl_t lvl, const char *path, long ln, const char *fmt, ...) __CPROVER_requires(1) __CPROVER_ensures(1) __CPROVER_assigns();
#include "/repo/src/fsg_search.c (patched with find_exit_loop_contracts.diff)"

fsg_hist_entry_t verif_cell; int32 verif_cell_id; fsg_link_t verif_lcell; fsg_hist_entry_t verif_wit; fsg_link_t verif_wlink; int32 verif_w; int32 verif_hist_n; fsg_history_t *verif_h;

static int fsg_search_find_exit(fsg_search_t *fsgs, int frame_idx, int final, int32 *out_score)
__CPROVER_requires(__CPROVER_is_fresh(fsgs, sizeof(*fsgs)))
__CPROVER_requires(__CPROVER_is_fresh(fsgs->fsg, sizeof(*fsgs->fsg)))
__CPROVER_requires(fsgs->history == verif_h)
__CPROVER_requires(__CPROVER_is_fresh(out_score, sizeof(*out_score)))
__CPROVER_requires(verif_hist_n >= 0)
__CPROVER_requires(verif_wit.fsglink == NULL || __CPROVER_pointer_equals(verif_wit.fsglink, &verif_wlink))
__CPROVER_requires(frame_idx >= -1 && fsgs->frame >= 0)
__CPROVER_requires(final == 0 || final == 1)
__CPROVER_assigns(*out_score, verif_cell, verif_lcell, verif_cell_id)
__CPROVER_ensures(__CPROVER_return_value >= -1 && __CPROVER_return_value < (verif_hist_n > 0 ? verif_hist_n : 1))
__CPROVER_ensures((__CPROVER_return_value > 0 && __CPROVER_return_value == verif_w) ==> verif_wit.fsglink != NULL)
__CPROVER_ensures((__CPROVER_return_value > 0 && __CPROVER_return_value == verif_w && final) ==> verif_wlink.to_state == fsgs->fsg->final_state)
__CPROVER_ensures((__CPROVER_return_value > 0 && __CPROVER_return_value == verif_w) ==> *out_score == verif_wit.score)
;
void h(void){ fsg_search_t *fsgs; int frame_idx; int final; int32 *out; fsg_search_find_exit(fsgs, frame_idx, final, out);} 
