#include <stddef.h>
#include <stdint.h>
/* contract on a redeclaration, definition follows without contract */
static int sum_flags(const signed char *a, int pos, int n, int maxlen)
__CPROVER_requires(maxlen > 0 && maxlen <= 8 && 0 <= pos && pos < maxlen && 0 < n && n < maxlen)
__CPROVER_requires(__CPROVER_is_fresh(a, maxlen))
__CPROVER_ensures(__CPROVER_return_value >= -128*64)
__CPROVER_assigns();

static int sum_flags(const signed char *a, int pos, int n, int maxlen)
{
    int i = pos, end = (pos + n) % maxlen;
    int count = a[i++];
    while (i != end)
    {
        count += a[i++];
        i = i % maxlen;
    }
    return count;
}
void h(void){ const signed char *a; int pos,n,maxlen; sum_flags(a,pos,n,maxlen);} 
