#include "/repo/src/hash_table.c"
#include <stdlib.h>
#define MAXCHAIN 3
#define KLEN 2
void h(void){
  hash_table_t ht; hash_entry_t slot[1]; ht.size = 1; ht.table = slot; 
  int nocase; ht.nocase = nocase ? 1 : 0;
  int n; __CPROVER_assume(n >= 0 && n <= MAXCHAIN); ht.inuse = n;
  char keys[MAXCHAIN][KLEN]; size_t lens[MAXCHAIN]; void *vals[MAXCHAIN];
  hash_entry_t *nodes[MAXCHAIN];
  for (int i = 0; i < MAXCHAIN; i++) { __CPROVER_assume(lens[i] <= KLEN); }
  /* build chain: slot[0] is head if n>0 */
  slot[0].key = 0; slot[0].len = 0; slot[0].next = 0; slot[0].val = 0;
  for (int i = 0; i < MAXCHAIN; i++) {
     if (i < n) {
        nodes[i] = (i == 0) ? &slot[0] : malloc(sizeof(hash_entry_t));
        nodes[i]->key = keys[i]; nodes[i]->len = lens[i]; nodes[i]->val = vals[i]; nodes[i]->next = 0;
        if (i > 0) nodes[i-1]->next = nodes[i];
     }
  }
  /* distinct keys (map invariant) case sensitive only for simplicity */
  __CPROVER_assume(!nocase);
  for (int i = 0; i < MAXCHAIN; i++) for (int j = i+1; j < MAXCHAIN; j++) if (j < n) {
     _Bool same = lens[i] == lens[j]; for (int k = 0; k < KLEN; k++) if (k < lens[i] && keys[i][k] != keys[j][k]) same = 0;
     __CPROVER_assume(!same);
  }
  char key[KLEN]; size_t len; __CPROVER_assume(len <= KLEN);
  int idx = -1; /* expected index */
  for (int i = 0; i < MAXCHAIN; i++) if (i < n) { _Bool same = lens[i] == len; for (int k = 0; k < KLEN; k++) if (k < len && keys[i][k] != key[k]) same = 0; if (same && idx < 0) idx = i; }
  void *r = delete(&ht, 0, key, len);
  if (idx < 0) { __CPROVER_assert(r == 0, "absent->NULL"); __CPROVER_assert(ht.inuse == n, "inuse same"); }
  else { __CPROVER_assert(r == vals[idx], "returns val"); __CPROVER_assert(ht.inuse == n-1, "inuse dec"); }
  /* remaining keys still found with right val, deleted not found */
  int q; __CPROVER_assume(q >= 0 && q < MAXCHAIN && q < n);
  hash_entry_t *e = lookup(&ht, 0, keys[q], lens[q]);
  if (q == idx) __CPROVER_assert(e == 0, "deleted gone"); else __CPROVER_assert(e != 0 && e->val == vals[q], "others kept");
}
