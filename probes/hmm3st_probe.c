#include "/repo/src/hmm.c"
#define W WORST_SCORE
#define MAX2(a,b) ((a) > (b) ? (a) : (b))
#define CL(x) ((x) < W ? W : (x))
/* ghost copies of pre-state, filled by harness */
int32 g_s0, g_s1, g_s2, g_o; int g_e0, g_e1, g_e2; int g_t00,g_t01,g_t02,g_t11,g_t12,g_t13,g_t22,g_t23;
#define ACT(x) ((x) > W)
static int32 hmm_vit_eval_3st_lr(hmm_t *hmm)
__CPROVER_requires(__CPROVER_is_fresh(hmm, sizeof(*hmm)))
__CPROVER_requires(__CPROVER_is_fresh(hmm->ctx, sizeof(*hmm->ctx)))
__CPROVER_requires(__CPROVER_is_fresh(hmm->ctx->senscore, 8 * sizeof(int16)))
__CPROVER_requires(__CPROVER_is_fresh(hmm->ctx->tp, 1 * sizeof(uint8 **)))
__CPROVER_requires(__CPROVER_is_fresh(hmm->ctx->tp[0], 1 * sizeof(uint8 *)))
__CPROVER_requires(__CPROVER_is_fresh(hmm->ctx->tp[0][0], 12))
__CPROVER_requires(hmm->tmatid == 0 && hmm->senid[0] < 8 && hmm->senid[1] < 8 && hmm->senid[2] < 8)
__CPROVER_requires(hmm->ctx->senscore[hmm->senid[0]] >= 0 && hmm->ctx->senscore[hmm->senid[1]] >= 0 && hmm->ctx->senscore[hmm->senid[2]] >= 0)
/* scores: inactive (== W) or in safe range */
__CPROVER_requires(hmm->score[0] >= W && hmm->score[0] <= 0)
__CPROVER_requires((hmm->score[1] == W || hmm->score[1] >= W + 0x100000) && hmm->score[1] <= 0)
__CPROVER_requires((hmm->score[2] == W || hmm->score[2] >= W + 0x100000) && hmm->score[2] <= 0)
/* activity is prefix-closed, exit inactive when state 1 inactive */
__CPROVER_requires(hmm->score[2] == W || hmm->score[1] != W)
__CPROVER_requires(hmm->score[1] != W || hmm->out_score == W)
/* ghost snapshot */
__CPROVER_requires(g_s0 == hmm->score[0] - hmm->ctx->senscore[hmm->senid[0]])
__CPROVER_requires(g_s1 == hmm->score[1] - hmm->ctx->senscore[hmm->senid[1]])
__CPROVER_requires(g_s2 == hmm->score[2] - hmm->ctx->senscore[hmm->senid[2]])
__CPROVER_requires(g_t00 == hmm->ctx->tp[0][0][0] && g_t01 == hmm->ctx->tp[0][0][1] && g_t02 == hmm->ctx->tp[0][0][2])
__CPROVER_requires(g_t11 == hmm->ctx->tp[0][0][5] && g_t12 == hmm->ctx->tp[0][0][6] && g_t13 == hmm->ctx->tp[0][0][7])
__CPROVER_requires(g_t22 == hmm->ctx->tp[0][0][10] && g_t23 == hmm->ctx->tp[0][0][11])
__CPROVER_assigns(hmm->score[0], hmm->score[1], hmm->score[2], hmm->history[1], hmm->history[2], hmm->out_score, hmm->out_history, hmm->bestscore)
/* max-plus step (skip arcs only when tp better than TMAT_WORST_SCORE) */
__CPROVER_ensures(hmm->score[0] == CL(g_s0 - g_t00))
__CPROVER_ensures(hmm->score[1] == CL(MAX2(g_s1 - g_t11, g_s0 - g_t01)))
__CPROVER_ensures(hmm->score[2] == CL(MAX2(MAX2(g_s2 - g_t22, g_s1 - g_t12), (g_t02 < 255 ? g_s0 - g_t02 : INT_MIN))))
__CPROVER_ensures(hmm->out_score == CL(MAX2(g_s2 - g_t23, (g_t13 < 255 ? g_s1 - g_t13 : INT_MIN))))
__CPROVER_ensures(__CPROVER_return_value == hmm->bestscore)
__CPROVER_ensures(hmm->bestscore == MAX2(MAX2(hmm->score[0], hmm->score[1]), MAX2(hmm->score[2], hmm->out_score)))
;
void h(void){ hmm_t *x; hmm_vit_eval_3st_lr(x);} 
