#include "/repo/src/logmath.c"
int g_T0;
#define ABSD(x,y) ((x) > (y) ? (x) - (y) : (y) - (x))
#define TBL(t,d) ((t)->width == 1 ? ((uint8*)(t)->table)[d] : (t)->width == 2 ? ((uint16*)(t)->table)[d] : ((uint32*)(t)->table)[d])
int logmath_add(logmath_t *lmath, int x, int y)
__CPROVER_requires(__CPROVER_is_fresh(lmath, sizeof(*lmath)))
__CPROVER_requires(lmath->t.width == 1 || lmath->t.width == 2 || lmath->t.width == 4)
__CPROVER_requires(lmath->t.table_size >= 1 && lmath->t.table_size <= 100000)
__CPROVER_requires(__CPROVER_is_fresh(lmath->t.table, (size_t)lmath->t.table_size * lmath->t.width))
__CPROVER_requires(lmath->t.shift >= 0 && lmath->t.shift <= 8 && lmath->zero == ((int)0x80000000 >> (lmath->t.shift + 2)))
__CPROVER_requires(x <= -lmath->zero && y <= -lmath->zero)
__CPROVER_requires(g_T0 >= 0 && g_T0 <= 1000000)
/* table invariant instantiated at the index used */
__CPROVER_requires((x > lmath->zero && y > lmath->zero && (size_t)ABSD(x,y) < lmath->t.table_size) ==> (TBL(&lmath->t, ABSD(x,y)) <= (uint32)g_T0))
__CPROVER_assigns()
__CPROVER_ensures(x <= lmath->zero ==> __CPROVER_return_value == y)
__CPROVER_ensures((x > lmath->zero && y <= lmath->zero) ==> __CPROVER_return_value == x)
__CPROVER_ensures((x > lmath->zero && y > lmath->zero) ==> (__CPROVER_return_value >= (x > y ? x : y) && __CPROVER_return_value <= (x > y ? x : y) + g_T0))
__CPROVER_ensures((x > lmath->zero && y > lmath->zero && (size_t)ABSD(x,y) >= lmath->t.table_size) ==> __CPROVER_return_value == (x > y ? x : y))
;
void h(void){ logmath_t *l; int x,y; logmath_add(l,x,y);} 
