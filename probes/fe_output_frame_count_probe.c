#include "/repo/src/fe_interface.c"
#define FS 410
#define SH 160
static int output_frame_count(fe_t *fe, size_t nsamps)
__CPROVER_requires(__CPROVER_is_fresh(fe, sizeof(*fe)))
__CPROVER_requires(fe->frame_size == FS && fe->frame_shift == SH && fe->num_overflow_samps >= 0 && fe->num_overflow_samps <= FS)
__CPROVER_requires(nsamps <= ((size_t)1 << 40))
__CPROVER_assigns()
__CPROVER_ensures(__CPROVER_return_value >= 0)
__CPROVER_ensures((nsamps + fe->num_overflow_samps < FS) ==> (__CPROVER_return_value == (nsamps > 0 || 1 ? (((size_t)0 * SH + FS) > nsamps ? 1 : 0) : 0)))
;
static int create_overflow_frame(fe_t *fe, void *inout_spch, size_t *inout_nsamps, fe_encoding_t encoding)
__CPROVER_requires(__CPROVER_is_fresh(fe, sizeof(*fe)))
__CPROVER_requires(fe->frame_size == FS && fe->frame_shift == SH)
__CPROVER_requires(__CPROVER_is_fresh(fe->overflow_samps, FS * sizeof(float32)))
__CPROVER_requires(__CPROVER_is_fresh(inout_nsamps, sizeof(size_t)) && *inout_nsamps <= 100000)
__CPROVER_requires(encoding == FE_PCM16)
__CPROVER_requires(__CPROVER_is_fresh(inout_spch, sizeof(int16 *)))
/* the caller has consumed at least FS-SH samples before *spch and *nsamps remain after it, all in one buffer of 2048 samples */
__CPROVER_requires(__CPROVER_is_fresh(*(int16 **)inout_spch, 0) || 1)
__CPROVER_assigns(fe->num_overflow_samps, __CPROVER_object_whole(fe->overflow_samps), *inout_nsamps, *(int16 **)inout_spch)
__CPROVER_ensures(__CPROVER_return_value == (__CPROVER_old(*inout_nsamps) < SH ? (int)__CPROVER_old(*inout_nsamps) : SH))
__CPROVER_ensures(fe->num_overflow_samps == FS - SH + __CPROVER_return_value)
__CPROVER_ensures(*inout_nsamps == __CPROVER_old(*inout_nsamps) - __CPROVER_return_value)
;
void h1(void){ fe_t *fe; size_t n; output_frame_count(fe, n);} 
