typedef struct { int a, b; } L;
typedef struct { L *l; int s; } E;
E cell; L lcell; E wit; L wl; int w; int cid;
E *get(int id)
__CPROVER_requires(id >= 0)
__CPROVER_assigns(cell, lcell, cid)
__CPROVER_ensures(__CPROVER_return_value == &cell && cid == id)
__CPROVER_ensures(cell.l == &lcell)
__CPROVER_ensures(id == w ==> (cell.s == wit.s && (cell.l == 0 || lcell.b == wl.b)))
;
void h(void){ int id; __CPROVER_assume(id>=0); E *e = get(id); if (id == w && e->l) { __CPROVER_assert(e->s == wit.s, "s"); __CPROVER_assert(e->l->b == wl.b, "b"); __CPROVER_assert(lcell.b == wl.b, "b2"); __CPROVER_assert(e->l == &lcell, "b3"); } }
