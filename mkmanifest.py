#!/usr/bin/env python3
"""Regenerates MANIFEST.json from groups/<ID>.py (CLAIM dicts) and na_reasons.json."""
import json, os, sys
sys.path.insert(0, os.path.dirname(os.path.abspath(__file__)))
import run

V = run.VERIF
ids = run.all_property_ids()
na = json.load(open(os.path.join(V, "na_reasons.json")))
hooks_commits = [l.strip() for l in open(os.path.join(V, "hook_commits.txt")) if l.strip() and not l.startswith("#")] if os.path.exists(os.path.join(V, "hook_commits.txt")) else []
checks, not_app, served, served_native = [], [], [], []
for pid in ids:
    p = os.path.join(V, "groups", pid + ".py")
    mod = run.load_groups(pid) if os.path.exists(p) else None
    if mod is None or not getattr(mod, "CLAIM", None):
        not_app.append({"property_id": pid, "reason": na.get(pid, "contract kernel designed (DESIGN.md section 4) but not built")})
        continue
    c = mod.CLAIM
    served.append(pid)
    if getattr(mod, "NATIVE", []):
        served_native.append(pid)
    checks.append({
        "property_id": pid,
        "quick_cmd": "python3 run.py check %s --tier quick" % pid,
        "thorough_cmd": "python3 run.py check %s --tier thorough" % pid,
        "evidence_file": "evidence/%s.json" % pid,
        "replay_cmd_template": "python3 run.py replay {path}",
        "engine": "cbmc-dfcc",
        "level_claimed": {"category": c.get("level", "proof"), "text": c["text"], "design_ref": "DESIGN.md section 4, " + pid},
        "level_note": c["note"],
        "technique": c["technique"]})
m = {"version": 1, "setup_cmd": "python3 run.py setup",
     "hooks": {"guard": "SOUNDSWALLOWER_VERIF",
               "enable": "run.py copies /repo/src and /repo/include to a scratch directory on every check; inject.py turns the /*@ssw loop|ghost|field ...*/ annotation comments into __CPROVER loop contracts / ghost text there; goto-cc -DSOUNDSWALLOWER_VERIF -DSSW_CBMC compiles harness + injected source as one TU (the CMake build is never given the guard; the annotations are comments)",
               "baseline_off_cmd": "cmake --build /repo/_build --target check ; ctest --test-dir /repo/_build -j8 --timeout 900",
               "source_commits": hooks_commits, "add_only": True},
     "engines": [{"name": "cbmc-dfcc", "path": "run.py", "serves_properties": served,
                  "kind_free_text": "CBMC 6.11 function and loop contracts enforced per function with goto-instrument --dfcc, callees replaced by their contracts; SAT back end"},
                 {"name": "native-enum", "path": "native/", "serves_properties": served_native,
                  "kind_free_text": "native exhaustive enumeration of finite spaces as labelled bounded stand-ins (never counted as proved)"}],
     "checks": checks, "not_applicable": not_app,
     "notes": "exit 2 from a check means UNDECIDED (tool limit, time-out, extraction/injection error); it is never reported as a violation"}
json.dump(m, open(os.path.join(V, "MANIFEST.json"), "w"), indent=1)
print("claimed:", served, "not applicable:", [x["property_id"] for x in not_app])
