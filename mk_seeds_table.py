#!/usr/bin/env python3
"""Fills DESIGN.md A.6 (between <!--SEEDS-TABLE--> markers) and seeded/*/meta.json 'detected_by' from a seedtest log
(lines '<seed> <PID> rc=<n> violations=<k> VIOLATION property=.. replay=/verif/replays/<PID>_<group>_<hash>.json ...')."""
import json, os, re, sys
V = os.path.dirname(os.path.abspath(__file__))
logs = sys.argv[1:]
rows = {}
import itertools
for line in itertools.chain.from_iterable(open(l) for l in logs):
    m = re.match(r"(C\d\d_[A-H]) (C\d\d) rc=(\d+) violations=(\d+)(.*)", line)
    if not m:
        continue
    seed, pid, rc, nv, rest = m.group(1), m.group(2), int(m.group(3)), int(m.group(4)), m.group(5)
    groups = sorted(set(re.findall(r"replays/%s_(.+?)_[0-9a-f]{8}\.json" % pid, rest)))
    native = "no-failing-input-found" not in rest and nv > 0
    rows.setdefault(seed, []).append((pid, rc, nv, groups, native, "UNDECIDED" in rest))
def what(seed):
    p = os.path.join(V, "seeded", seed, "patch.diff")
    if not os.path.exists(p):
        return "?"
    files = sorted(set(re.findall(r"^\+\+\+ b/(\S+)", open(p).read(), re.M)))
    return ", ".join(files)
out = ["| seed | file changed | detected by (property: failing groups) | failing input reproduced natively |", "|------|--------------|------------------------------------------|------------------------------------|"]
ndet = 0
for seed in sorted(rows):
    det = [(pid, g, nat) for pid, rc, nv, g, nat, und in rows[seed] if rc == 1 and nv > 0]
    if det:
        ndet += 1
        txt = "; ".join("%s: %s" % (pid, ", ".join(g) or "?") for pid, g, nat in det)
        nat = "yes" if any(n for _p, _g, n in det) else "no (verifier counterexample only: no-failing-input-found)"
    else:
        txt = "**not detected**" + (" (UNDECIDED)" if any(r[5] for r in rows[seed]) else "")
        nat = "-"
    out.append("| %s | %s | %s | %s |" % (seed, what(seed), txt, nat))
    mp = os.path.join(V, "seeded", seed, "meta.json")
    if os.path.exists(mp):
        meta = json.load(open(mp))
        meta["detected_by"] = txt
        json.dump(meta, open(mp, "w"), indent=1)
out.append("")
out.append("%d of %d seeded changes are detected by the registered quick checks (log of the last full run: `./seedtest.sh` for every seed, see A.1)." % (ndet, len(rows)))
d = open(os.path.join(V, "DESIGN.md")).read()
table = "\n".join(out)
if "<!--SEEDS-TABLE-->" in d:
    d = d.replace("<!--SEEDS-TABLE-->", "<!--SEEDS-TABLE-BEGIN-->\n" + table + "\n<!--SEEDS-TABLE-END-->")
else:
    d = re.sub(r"<!--SEEDS-TABLE-BEGIN-->.*?<!--SEEDS-TABLE-END-->", lambda _m: "<!--SEEDS-TABLE-BEGIN-->\n" + table + "\n<!--SEEDS-TABLE-END-->", d, flags=re.S)
open(os.path.join(V, "DESIGN.md"), "w").write(d)
print(table)
