/* Native replay runtime: feeds the values of the verifier's counterexample to a harness
 * compiled with -DSSW_REPLAY.  Input file: lines "path<TAB>data<TAB>binary". */
#include <stdio.h>
#include <stdlib.h>
#include <string.h>

#define MAXIN 4096
static char *names[MAXIN], *datas[MAXIN], *bins[MAXIN];
static int nin;

static int find(const char *path)
{
    for (int i = nin - 1; i >= 0; i--)
        if (strcmp(names[i], path) == 0) return i;
    return -1;
}
static void mkpath(char *buf, size_t n, const char *name, int idx, const char *field)
{
    if (idx >= 0 && field) snprintf(buf, n, "%s[%d].%s", name, idx, field);
    else if (idx >= 0) snprintf(buf, n, "%s[%d]", name, idx);
    else if (field) snprintf(buf, n, "%s.%s", name, field);
    else snprintf(buf, n, "%s", name);
}
long long ssw_in_ll(const char *name, int idx, const char *field)
{
    char p[256]; mkpath(p, sizeof p, name, idx, field);
    int i = find(p);
    if (i < 0) { fprintf(stderr, "replay: no value for %s, using 0\n", p); return 0; }
    if (bins[i] && bins[i][0] && strlen(bins[i]) <= 64 && strspn(bins[i], "01") == strlen(bins[i])) {
        unsigned long long v = 0; size_t n = strlen(bins[i]);
        for (size_t k = 0; k < n; k++) v = (v << 1) | (unsigned)(bins[i][k] - '0');
        if (n < 64 && datas[i][0] == '-') v |= ~0ULL << n; /* sign extend */
        return (long long)v;
    }
    return strtoll(datas[i], NULL, 0);
}
double ssw_in_double(const char *name, int idx, const char *field)
{
    char p[256]; mkpath(p, sizeof p, name, idx, field);
    int i = find(p);
    if (i < 0) return 0.0;
    if (bins[i] && strlen(bins[i]) == 64) { unsigned long long v = 0; for (int k = 0; k < 64; k++) v = (v << 1) | (unsigned)(bins[i][k] - '0'); double d; memcpy(&d, &v, 8); return d; }
    if (bins[i] && strlen(bins[i]) == 32) { unsigned v = 0; for (int k = 0; k < 32; k++) v = (v << 1) | (unsigned)(bins[i][k] - '0'); float f; memcpy(&f, &v, 4); return f; }
    return strtod(datas[i], NULL);
}
void ssw_replay_fail(const char *text)
{
    fprintf(stderr, "REPLAY-FAILED: %s\n", text);
    exit(1);
}
#ifndef SSW_ENTRY
#error SSW_ENTRY
#endif
void SSW_ENTRY(void);
int main(int argc, char **argv)
{
    if (argc > 1) {
        FILE *f = fopen(argv[1], "r"); char line[8192];
        while (f && fgets(line, sizeof line, f) && nin < MAXIN) {
            char *a = strtok(line, "\t\n"), *b = strtok(NULL, "\t\n"), *c = strtok(NULL, "\t\n");
            if (!a || !b) continue;
            names[nin] = strdup(a); datas[nin] = strdup(b); bins[nin] = c ? strdup(c) : NULL; nin++;
        }
    }
    SSW_ENTRY();
    printf("replay: harness completed, postconditions hold natively\n");
    return 0;
}
